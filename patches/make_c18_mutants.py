#!/usr/bin/env python3
"""Regenerate patches/mutants/c18_*.diff (mutation self-test of contracts/c18.py): each is the candidate repair
(c18_poolsum_bound_indices.diff + c18_unfold_nested_poolsums.diff) plus one edit. m* must give exit 1, h* exit 0."""
import os
import subprocess
import sys

HERE = os.path.dirname(os.path.abspath(__file__))
base = "/tmp/c18both.diff"
with open(base, "w") as f:
    f.write(open(os.path.join(HERE, "c18_poolsum_bound_indices.diff")).read())
    f.write(open(os.path.join(HERE, "c18_unfold_nested_poolsums.diff")).read())
R = "src/ampform/sympy/__init__.py"
M = os.path.join(HERE, "mutants")
os.makedirs(M, exist_ok=True)
MUTANTS = {
    "c18_m1_product_reversed": ("for combi in itertools.product(*indices.values())", "for combi in itertools.product(*list(indices.values())[::-1])"),
    "c18_m2_pools_to_set": ("            values = tuple(values)\n            if len(values) == 0:", "            values = tuple(set(values))\n            if len(values) == 0:"),
    "c18_m3_free_symbols_keep_indices": ("        return super().free_symbols - {s for s, _ in self.indices}", "        return super().free_symbols"),
    "c18_h2_free_symbols_removed_twice": ("        return super().free_symbols - {s for s, _ in self.indices}",
                                          "        indices = {s for s, _ in self.indices}\n        return (super().free_symbols - indices) - indices"),
    "c18_m4_doit_always_deep": ("        if deep:\n            return expr.doit()\n        return expr", "        return expr.doit()"),
    "c18_m5_cleanup_drops_multivalued": ("            if len(values) == 1:\n                substitutions[idx] = values[0]",
                                         "            if len(values) >= 1:\n                substitutions[idx] = values[0]"),
    "c18_m6_eval_subs_wrong_index": ("        if old in {idx for idx, _ in self.indices}:", "        if old in {idx for idx, _ in self.indices[:1]}:"),
    "c18_h1_evaluate_refactored": (
        "        indices = {symbol: tuple(values) for symbol, values in self.indices}\n        return sp.Add(*[\n"
        "            self.expression.subs(zip(indices, combi))\n            for combi in itertools.product(*indices.values())\n        ])",
        "        symbols = [symbol for symbol, _ in self.indices]\n        pools = [tuple(values) for _, values in self.indices]\n"
        "        summand = self.expression\n        terms = []\n        for combination in itertools.product(*pools):\n"
        "            substitutions = list(zip(symbols, combination))\n            terms.append(summand.subs(substitutions))\n        return sp.Add(*terms)",
    ),
}
for name, (old, new) in MUTANTS.items():
    subprocess.run([sys.executable, os.path.join(HERE, "mkmut2.py"), base, os.path.join(M, name + ".diff"), R, old, new], check=True)
