#!/usr/bin/env python3
"""Regenerate patches/c16_cache_atomic_and_checked.diff (candidate repair of perform_cached_doit) from /repo HEAD."""
import os
import subprocess
import tempfile

HERE = os.path.dirname(os.path.abspath(__file__))
wt = tempfile.mkdtemp(prefix="c16patch", dir="/tmp")
os.rmdir(wt)
subprocess.run(["git", "-C", "/repo", "worktree", "add", "-q", "--detach", wt, "HEAD"], check=True)
try:
    p = os.path.join(wt, "src/ampform/sympy/__init__.py")
    s = open(p).read()
    edits = [
        ("import logging\nimport pickle  # noqa: S403\nimport re\nimport sys\nimport warnings\n",
         "import logging\nimport os\nimport pickle  # noqa: S403\nimport re\nimport sys\nimport tempfile\nimport warnings\n"),
        ("""    if filename.exists():
        with open(filename, "rb") as f:
            return pickle.load(f)  # noqa: S301
""", """    if filename.exists():
        try:
            with open(filename, "rb") as f:
                cached = pickle.load(f)  # noqa: S301
        except Exception:  # noqa: BLE001  # truncated or foreign file: recompute
            cached = None
        # the key can collide (equal str, equal hash): trust the file only if it holds this expression
        if isinstance(cached, tuple) and len(cached) == 2 and cached[0] == unevaluated_expr:
            return cached[1]
"""),
        ("""    with open(filename, "wb") as f:
        pickle.dump(unfolded_expr, f)
    return unfolded_expr
""", """    fd, temp_filename = tempfile.mkstemp(dir=cache_directory, suffix=".tmp")
    with os.fdopen(fd, "wb") as f:
        pickle.dump((unevaluated_expr, unfolded_expr), f)
    os.replace(temp_filename, filename)  # atomic: readers never see a partial file
    return unfolded_expr
"""),
    ]
    for old, new in edits:
        assert s.count(old) == 1, old
        s = s.replace(old, new)
    open(p, "w").write(s)
    d = subprocess.run(["git", "-C", wt, "diff"], capture_output=True, text=True, check=True).stdout
    out = os.path.join(HERE, "c16_cache_atomic_and_checked.diff")
    open(out, "w").write(d)
    print(d)
finally:
    subprocess.run(["git", "-C", "/repo", "worktree", "remove", "--force", wt], check=False)
