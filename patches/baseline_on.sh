#!/bin/sh
# patches/baseline_on.sh <scratch-tree>  -- the pinned baseline suite on a scratch worktree of /repo (PYTHONPATH points at
# the scratch tree's src, otherwise the doctest modules collide with the editable install of /repo), compared with
# /root/.vp/BASELINE.json: every stable_pass test must pass.
unset COMPWA_AMPFORM_VERIF
T="$(realpath "$1")"
OUT="$(mktemp /tmp/baseline.XXXXXX.xml)"
cd "$T" || exit 3
PYTHONPATH="$T/src" /venv/bin/python -m pytest -ra -q -p no:cacheprovider --timeout=900 --continue-on-collection-errors --junitxml="$OUT" >/tmp/baseline_on.$$.log 2>&1
/venv/bin/python - "$OUT" <<'PY'
import json, sys
import xml.etree.ElementTree as ET
base = json.load(open("/root/.vp/BASELINE.json"))
want = set(base["stable_pass"])
passed = set()
for tc in ET.parse(sys.argv[1]).getroot().iter("testcase"):
    ok = not any(ch.tag in ("failure", "error", "skipped") for ch in tc)
    if ok:
        passed.add(f"{tc.get('classname')}::{tc.get('name')}")
missing = sorted(want - passed)
print(f"baseline: {len(want & passed)}/{len(want)} stable tests pass; {len(missing)} missing")
for m in missing[:20]:
    print("  NOT PASSING:", m)
sys.exit(1 if missing else 0)
PY
RC=$?
rm -f "$OUT" /tmp/baseline_on.$$.log
exit $RC
