#!/bin/sh
# patches/run_mutants.sh <ID> <prefix>   e.g.  patches/run_mutants.sh C18 c18_
# Mutation self-test: runs ./check <ID> against /repo HEAD + each patches/mutants/<prefix>*.diff (tools/mutest.sh).
# m* patches must end with exit=1 and a VIOLATION line, h* patches (harmless refactorings) with exit=0.
# Prints, per patch, the first failing obligations and the SUMMARY line.
cd "$(dirname "$0")/.." || exit 3
for P in patches/mutants/"$2"*.diff; do
  echo "== $P"
  LINES_MAX=400 tools/mutest.sh "$P" "$1" 2>&1 | grep -E "^(SUMMARY|UNDECIDED|CHECKER-ERROR|FAILED-OBLIGATION|KNOWN-FINDING|PATCH)" | cut -c1-230 | awk 'NR<=6 || /^SUMMARY/'
done
