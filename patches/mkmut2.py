#!/usr/bin/env python3
"""patches/mkmut2.py <base.diff|-> <out.diff> <repo-relative-file> <old> <new>

Write the diff against /repo HEAD of (base patch + one textual edit): mutants "on top of a candidate patch".
Uses a scratch worktree of /repo under /tmp, removed afterwards."""
import os
import subprocess
import sys
import tempfile

base, out, rel, old, new = sys.argv[1:6]
wt = tempfile.mkdtemp(prefix="mkmut", dir="/tmp")
os.rmdir(wt)
subprocess.run(["git", "-C", "/repo", "worktree", "add", "-q", "--detach", wt, "HEAD"], check=True)
try:
    if base != "-":
        subprocess.run(["git", "-C", wt, "apply", os.path.abspath(base)], check=True)
    p = os.path.join(wt, rel)
    s = open(p).read()
    assert s.count(old) == 1, f"pattern occurs {s.count(old)} times"
    open(p, "w").write(s.replace(old, new))
    d = subprocess.run(["git", "-C", wt, "diff"], capture_output=True, text=True, check=True).stdout
    open(out, "w").write(d)
    print(out, len(d.splitlines()), "lines")
finally:
    subprocess.run(["git", "-C", "/repo", "worktree", "remove", "--force", wt], check=False)
