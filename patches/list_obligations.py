#!/usr/bin/env python3
"""patches/list_obligations.py <ID> [quick|thorough] [--run]  -- print the obligation names a contract generates (and, with
--run, their verdicts). Run with the interpreter and PYTHONPATH of ./check:
   PYTHONPATH=$VERIF_REPO/src:. .venv/bin/python patches/list_obligations.py C18 quick"""
import importlib
import sys
import warnings

warnings.filterwarnings("ignore")
from vlib import core  # noqa: E402

prop = sys.argv[1]
tier = sys.argv[2] if len(sys.argv) > 2 and not sys.argv[2].startswith("-") else "quick"
mod = importlib.import_module(f"contracts.{prop.lower()}")
chk = core.Check(prop, tier, mod.LEVEL, mod.TECHNIQUE)
mod.build(chk)
if "--run" in sys.argv:
    chk.run()
for o in chk.obligations:
    flags = ("L" if o.lemma else "P") + ("b" if o.bounded else " ")
    print(f"{o.kind:8s} {flags} {o.status or '-':7s} {o.seconds:6.2f} {o.name}")
