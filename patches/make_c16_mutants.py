#!/usr/bin/env python3
"""Regenerate patches/mutants/c16_*.diff (mutation self-test of contracts/c16.py): each is the candidate repair
c16_cache_atomic_and_checked.diff plus one edit. m* must give exit 1 + VIOLATION, h* (harmless refactoring) exit 0."""
import os
import subprocess
import sys

HERE = os.path.dirname(os.path.abspath(__file__))
base = os.path.join(HERE, "c16_cache_atomic_and_checked.diff")
R = "src/ampform/sympy/__init__.py"
M = os.path.join(HERE, "mutants")
os.makedirs(M, exist_ok=True)
MUTANTS = {
    "c16_m1_load_without_try": (
        """        try:
            with open(filename, "rb") as f:
                cached = pickle.load(f)  # noqa: S301
        except Exception:  # noqa: BLE001  # truncated or foreign file: recompute
            cached = None
""",
        """        with open(filename, "rb") as f:
            cached = pickle.load(f)  # noqa: S301
""",
    ),
    "c16_m2_write_without_replace": (
        """    fd, temp_filename = tempfile.mkstemp(dir=cache_directory, suffix=".tmp")
    with os.fdopen(fd, "wb") as f:
        pickle.dump((unevaluated_expr, unfolded_expr), f)
    os.replace(temp_filename, filename)  # atomic: readers never see a partial file
""",
        """    with open(filename, "wb") as f:
        pickle.dump((unevaluated_expr, unfolded_expr), f)
""",
    ),
    "c16_m3_compare_by_str_only": ("cached[0] == unevaluated_expr:", "str(cached[0]) == str(unevaluated_expr):"),
    "c16_m4_stored_expression_not_compared": ("        if isinstance(cached, tuple) and len(cached) == 2 and cached[0] == unevaluated_expr:", "        if isinstance(cached, tuple) and len(cached) == 2:"),
    "c16_m5_temp_file_named_pkl": ('tempfile.mkstemp(dir=cache_directory, suffix=".tmp")', 'tempfile.mkstemp(dir=cache_directory, suffix=".pkl")'),
    "c16_h1_renamed_locals": (
        """    unfolded_expr = unevaluated_expr.doit()
    fd, temp_filename = tempfile.mkstemp(dir=cache_directory, suffix=".tmp")
    with os.fdopen(fd, "wb") as f:
        pickle.dump((unevaluated_expr, unfolded_expr), f)
    os.replace(temp_filename, filename)  # atomic: readers never see a partial file
    return unfolded_expr
""",
        """    result = unevaluated_expr.doit()
    record = (unevaluated_expr, result)
    handle, scratch = tempfile.mkstemp(suffix=".tmp", dir=cache_directory)
    with os.fdopen(handle, "wb") as stream:
        pickle.dump(record, stream)
    os.replace(scratch, filename)
    return result
""",
    ),
}
for name, (old, new) in MUTANTS.items():
    subprocess.run([sys.executable, os.path.join(HERE, "mkmut2.py"), base, os.path.join(M, name + ".diff"), R, old, new], check=True)
