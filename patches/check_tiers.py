#!/usr/bin/env python3
"""patches/check_tiers.py <ID>  -- the thorough tier must generate a superset of the quick tier's obligation names.
Run with the interpreter and PYTHONPATH of ./check."""
import importlib
import sys
import warnings

warnings.filterwarnings("ignore")
from vlib import core  # noqa: E402

prop = sys.argv[1]
mod = importlib.import_module(f"contracts.{prop.lower()}")
names = {}
for tier in ("quick", "thorough"):
    chk = core.Check(prop, tier, mod.LEVEL, mod.TECHNIQUE)
    mod.build(chk)
    names[tier] = [o.name for o in chk.obligations]
    assert len(set(names[tier])) == len(names[tier]), "duplicate names"
    assert not any("," in n for n in names[tier]), [n for n in names[tier] if "," in n][:3]
missing = sorted(set(names["quick"]) - set(names["thorough"]))
print(prop, "quick", len(names["quick"]), "thorough", len(names["thorough"]), "quick-only:", missing[:5])
sys.exit(1 if missing else 0)
