"""E1 helpers: obligations "body meets spec", well-definedness, cover with numeric cross-check."""

from __future__ import annotations

import math
from typing import Any, Callable

import sympy as sp
import z3

from .core import Check
from .tr import Ang, Cx, Tr, eq_all, flatten


# ---- float evaluation of a z3 term in a (float) model ------------------------------------------
def zfloat(t, model: dict[str, Any]) -> float | bool:
    if z3.is_rational_value(t):
        return t.numerator_as_long() / t.denominator_as_long()
    if z3.is_algebraic_value(t):
        return float(t.approx(20).as_decimal(20).rstrip("?"))
    if z3.is_true(t):
        return True
    if z3.is_false(t):
        return False
    if z3.is_const(t) and t.decl().kind() == z3.Z3_OP_UNINTERPRETED:
        v = model.get(t.decl().name(), 0.0)
        if isinstance(v, bool):
            return v
        return float(v)
    k = t.decl().kind()
    ch = [zfloat(c, model) for c in t.children()]
    if k == z3.Z3_OP_ADD:
        return sum(ch)
    if k == z3.Z3_OP_MUL:
        return math.prod(ch)
    if k == z3.Z3_OP_SUB:
        out = ch[0]
        for c in ch[1:]:
            out -= c
        return out
    if k == z3.Z3_OP_UMINUS:
        return -ch[0]
    if k == z3.Z3_OP_DIV:
        return ch[0] / ch[1] if ch[1] != 0 else float("nan")
    if k == z3.Z3_OP_POWER:
        return ch[0] ** ch[1]
    if k == z3.Z3_OP_ITE:
        return ch[1] if ch[0] else ch[2]
    if k == z3.Z3_OP_LE:
        return ch[0] <= ch[1]
    if k == z3.Z3_OP_LT:
        return ch[0] < ch[1]
    if k == z3.Z3_OP_GE:
        return ch[0] >= ch[1]
    if k == z3.Z3_OP_GT:
        return ch[0] > ch[1]
    if k == z3.Z3_OP_EQ:
        return abs(ch[0] - ch[1]) < 1e-9 if not isinstance(ch[0], bool) else ch[0] == ch[1]
    if k == z3.Z3_OP_AND:
        return all(ch)
    if k == z3.Z3_OP_OR:
        return any(ch)
    if k == z3.Z3_OP_NOT:
        return not ch[0]
    if k == z3.Z3_OP_IMPLIES:
        return (not ch[0]) or ch[1]
    if k == z3.Z3_OP_TO_REAL:
        return float(ch[0])
    raise ValueError(f"zfloat: unsupported z3 op {t.decl().name()}")


def model_to_dict(m) -> dict[str, Any]:
    """z3 model -> {constant name: float | int | bool} (as the solver workers report counter-models)."""
    out: dict[str, Any] = {}
    for d in m.decls():
        if d.arity() != 0:
            continue
        v = m[d]
        if z3.is_true(v):
            out[d.name()] = True
        elif z3.is_false(v):
            out[d.name()] = False
        elif z3.is_int_value(v):
            out[d.name()] = v.as_long()
        elif z3.is_rational_value(v):
            out[d.name()] = v.numerator_as_long() / v.denominator_as_long()
        elif z3.is_algebraic_value(v):
            out[d.name()] = float(v.approx(40).as_decimal(30).rstrip("?"))
    return out


def cfloat(v: Cx, model) -> complex:
    return complex(zfloat(v.re, model), zfloat(v.imz, model))


# ---- numeric evaluation of the real SymPy tree at a model ---------------------------------------
def numeric_real_tree(expr, model: dict[str, Any], angle_atoms: dict[str, float] | None = None):
    """Evaluate the real SymPy object (after doit()) with numpy at the model's values.

    Scalars: Symbol name -> model[name]; four-momentum ArraySymbol p -> [[p_E, p_x, p_y, p_z]];
    angle symbols a -> atan2(model[sin_a], model[cos_a]).
    Returns a complex number / nested list of complex numbers (event axis stripped).
    """
    import numpy as np
    from sympy.tensor.array.expressions.array_expressions import ArraySymbol

    expr = sp.sympify(expr)
    if isinstance(expr, sp.MatrixBase):
        return np.array([[complex(np.asarray(numeric_real_tree(expr[i, j], model)).reshape(-1)[0]) for j in range(expr.cols)]
                         for i in range(expr.rows)])
    unfolded = expr.doit() if hasattr(expr, "doit") else expr
    syms = sorted(unfolded.free_symbols, key=lambda s: s.name)
    arrs = sorted(unfolded.atoms(ArraySymbol), key=lambda s: str(s.name))
    arr_names = {str(a.name) for a in arrs}
    syms = [s for s in syms if s.name not in arr_names]
    args, vals = [], []
    for s in syms:
        args.append(s)
        if s.name in model:
            vals.append(np.array([float(model[s.name])]))
        elif f"cos_{s.name}" in model or f"sin_{s.name}" in model:
            vals.append(np.array([math.atan2(float(model.get(f"sin_{s.name}", 0)), float(model.get(f"cos_{s.name}", 1)))]))
        elif f"{s.name}__re" in model:
            vals.append(np.array([complex(float(model[f"{s.name}__re"]), float(model.get(f"{s.name}__im", 0)))]))
        else:
            vals.append(np.array([0.0]))
    for a in arrs:
        args.append(a)
        vals.append(np.array([[float(model.get(f"{a.name}_{c}", 0.0)) for c in ("E", "x", "y", "z")]]))
    f = sp.lambdify(args, unfolded, "numpy", cse=True)
    out = f(*vals)
    out = np.asarray(out)
    if out.ndim >= 1 and out.shape[0] == 1:
        out = out[0]
    return out


def cover_check(tr: Tr, value, real_expr, tol: float = 1e-6) -> Callable[[dict[str, Any]], str | None]:
    """model_check for a cover obligation: SMT denotation == numpy value of the real tree."""

    def check(model):
        import numpy as np

        flat = flatten(value) if not isinstance(value, Ang) else [Cx(value.c), Cx(value.s)]
        smt_vals = np.array([cfloat(c, model) for c in flat])
        num = np.asarray(numeric_real_tree(real_expr, model), dtype=complex).reshape(-1)
        if isinstance(value, Ang):
            ang = num[0].real
            num = np.array([math.cos(ang), math.sin(ang)], dtype=complex)
        if num.shape != smt_vals.shape:
            if num.size == 1:
                num = np.full(smt_vals.shape, num.reshape(-1)[0])
            else:
                return f"shape {num.shape} vs {smt_vals.shape}"
        if not np.all(np.isfinite(num)):
            return f"real code gives non-finite values {num[:4]} at the cover model"
        err = float(np.max(np.abs(num - smt_vals)))
        scale = 1.0 + float(np.max(np.abs(num)))
        if err > tol * scale:
            return f"max |real - smt| = {err:.3e}: real={num[:4]} smt={smt_vals[:4]}"
        return None

    return check


def add_wd(chk: Check, prefix: str, tr: Tr, requires: list[Any], function: str, start: int = 0, replay=None) -> None:
    """One obligation per well-definedness condition collected by the translator."""
    seen = set()
    for what, cond, nside in tr.wd[start:]:
        key = cond.sexpr()
        if key in seen:
            continue
        seen.add(key)
        hyps = requires + list(tr.assm) + list(tr.side[:nside])
        chk.smt(f"{prefix}.wd{len(seen)}[{what[:50]}]", hyps, cond, function=function, replay=replay)
