"""E5 helpers: build real ampform models for zoo reactions under enumerated builder configurations."""

from __future__ import annotations

import itertools
import logging
import warnings
from dataclasses import dataclass, field
from typing import Any

from . import zoo


@dataclass(frozen=True)
class Config:
    reaction: str
    formalism: str = "helicity"
    alignment: str = "none"  # none | axis | dpd1 | dpd2 | dpd3
    stable: str = "none"  # none | some | all
    scalar_initial_mass: bool = False
    helicity_couplings: bool = False
    dynamics: str = "none"  # none | bw | bwff | bwsff (simple BW + form factor) | bwedw (energy-dependent width, no form factor) | nodynff
    relabel: bool = False  # final-state ids 1..3 (needed by DPD)
    naming: str = "default"  # default | parent (insert_parent_helicities) | nochild (insert_child_helicities off)

    @property
    def tag(self) -> str:
        f = "hel" if self.formalism == "helicity" else "can"
        return (f"{self.reaction}/{f}/align={self.alignment}/stable={self.stable}/scalar_m0={int(self.scalar_initial_mass)}"
                f"/couplings={int(self.helicity_couplings)}/dyn={self.dynamics}" + ("" if self.naming == "default" else f"/naming={self.naming}"))


def quiet() -> None:
    warnings.filterwarnings("ignore")
    logging.disable(logging.WARNING)


def get_reaction(cfg: Config):
    r = zoo.reaction(cfg.reaction, cfg.formalism)
    if cfg.alignment.startswith("dpd") or cfg.relabel:
        from ampform.helicity.align.dpd import relabel_edge_ids

        r = relabel_edge_ids(r)
    return r


def make_builder(cfg: Config, reaction=None):
    import ampform
    from ampform.dynamics.builder import create_relativistic_breit_wigner, create_relativistic_breit_wigner_with_ff
    from ampform.helicity.align.axisangle import AxisAngleAlignment
    from ampform.helicity.align.dpd import DalitzPlotDecomposition

    quiet()
    r = reaction if reaction is not None else get_reaction(cfg)
    b = ampform.get_builder(r)
    if cfg.alignment == "axis":
        b.config.spin_alignment = AxisAngleAlignment()
    elif cfg.alignment.startswith("dpd"):
        b.config.spin_alignment = DalitzPlotDecomposition(reference_subsystem=int(cfg.alignment[3]))
    fs = sorted(r.final_state)
    if cfg.stable == "some":
        b.config.stable_final_state_ids = fs[:2] if len(fs) > 2 else fs[:1]
    elif cfg.stable == "all":
        b.config.stable_final_state_ids = fs
    b.config.scalar_initial_state_mass = cfg.scalar_initial_mass
    b.config.use_helicity_couplings = cfg.helicity_couplings
    b.naming.insert_parent_helicities = cfg.naming == "parent"
    b.naming.insert_child_helicities = cfg.naming != "nochild"
    if cfg.dynamics != "none":
        if cfg.dynamics in {"bwsff", "bwedw"}:  # the two combinations of RelativisticBreitWignerBuilder without a convenience constructor
            from ampform.dynamics.builder import RelativisticBreitWignerBuilder

            builder = RelativisticBreitWignerBuilder(form_factor=cfg.dynamics == "bwsff", energy_dependent_width=cfg.dynamics == "bwedw")
        elif cfg.dynamics == "nodynff":
            from ampform.dynamics.builder import create_non_dynamic_with_ff

            builder = create_non_dynamic_with_ff
        else:
            builder = create_relativistic_breit_wigner if cfg.dynamics == "bw" else create_relativistic_breit_wigner_with_ff
        for name in r.get_intermediate_particles().names:
            b.dynamics.assign(name, builder)
    return b


def reconfigure(b, cfg: Config) -> None:
    """Set the configuration of cfg on an EXISTING builder (alignment, stable ids, scalar initial mass, couplings): the way a user changes
    settings between two formulate() calls. Dynamics stay as assigned."""
    from ampform.helicity.align.axisangle import AxisAngleAlignment
    from ampform.helicity.align.dpd import DalitzPlotDecomposition
    from ampform.helicity.align import NoAlignment

    fs = sorted(b.reaction.final_state)
    b.config.spin_alignment = AxisAngleAlignment() if cfg.alignment == "axis" else DalitzPlotDecomposition(reference_subsystem=int(cfg.alignment[3])) if cfg.alignment.startswith("dpd") else NoAlignment()
    b.config.stable_final_state_ids = None if cfg.stable == "none" else (fs[:2] if len(fs) > 2 else fs[:1]) if cfg.stable == "some" else fs
    b.config.scalar_initial_state_mass = cfg.scalar_initial_mass
    b.config.use_helicity_couplings = cfg.helicity_couplings
    b.naming.insert_parent_helicities = cfg.naming == "parent"
    b.naming.insert_child_helicities = cfg.naming != "nochild"


def build(cfg: Config):
    """Formulate the model. The form-factor builder documents that it refuses nodes without an angular momentum
    (helicity formalism, half-integer spins): that configuration is then built with the plain Breit-Wigner instead."""
    try:
        return make_builder(cfg).formulate()
    except ValueError as e:
        if cfg.dynamics == "bwff" and "Angular momentum is not defined" in str(e):
            import dataclasses

            return make_builder(dataclasses.replace(cfg, dynamics="bw")).formulate()
        raise


def n_final(reaction_name: str) -> int:
    return len(zoo.REACTIONS[reaction_name]["final_state"])


QUICK_REACTIONS = ["jpsi_gamma_pi0_pi0", "jpsi_pi0_pip_pim", "etac_lambda_lambdabar", "jpsi_p_pbar", "lambdac_p_k_pi", "d1_k_k_k0", "jpsi_sigmabar_sigma",
                   "jpsi_k0_sigma_pbar_N", "jpsi_kk_pipi", "d0_k_3pi_cascade", "jpsi_k0_sigma_pbar_partial", "jpsi_gamma_pi0_pi0_omega",
                   "chic0_omega_omega", "chic2_gamma_gamma"]  # identical final-state particles WITH spin (different nodes / one node)


THOROUGH_EXTRA = ["jpsi_gamma_pi0_pi0_f2", "d0_k_pi_pi0", "jpsi_gamma_p_pbar", "jpsi_full_p_pbar",
                  "psi2s_gamma_gamma_jpsi"]  # (three spin-1 final states: the DPD-aligned models are large, thorough tier only)


def config_space(tier: str, reactions: list[str] | None = None) -> list[Config]:
    """quick: a covering subset (each option value appears with each reaction); thorough: the full product."""
    out: list[Config] = []
    names = reactions or (QUICK_REACTIONS + (THOROUGH_EXTRA if tier == "thorough" else []))
    for nm in names:
        aligns = ["none", "axis"] + (["dpd1", "dpd2", "dpd3"] if n_final(nm) == 3 else [])
        if nm == "psi2s_gamma_gamma_jpsi":
            aligns = ["none"]  # three spin-1 final states: an aligned model takes 40-200 s to formulate and adds nothing about identical particles
        forms = ["helicity", "canonical-helicity"]
        if tier == "thorough":
            for f, a, s, sc, hc, d in itertools.product(forms, aligns, ["none", "some", "all"], [False, True], [False, True], ["none", "bwff"]):
                out.append(Config(nm, f, a, s, sc, hc, d))
        else:
            base = Config(nm)
            seen = set()
            rows = [dict()] + [dict(formalism="canonical-helicity")] + [dict(alignment=a) for a in aligns[1:]]
            rows += [dict(stable="some"), dict(stable="all"), dict(scalar_initial_mass=True), dict(helicity_couplings=True), dict(dynamics="bwff")]
            if n_final(nm) == 3:
                rows += [dict(alignment="dpd1", stable="all", scalar_initial_mass=True), dict(alignment="dpd3", stable="some", dynamics="bwff"),
                         dict(alignment="dpd2", formalism="canonical-helicity", scalar_initial_mass=True)]
            rows += [dict(alignment="axis", stable="all", scalar_initial_mass=True, formalism="canonical-helicity", helicity_couplings=True, dynamics="bwff")]
            for row in rows:
                c = Config(nm, **{k: v for k, v in row.items()})
                if c not in seen:
                    seen.add(c)
                    out.append(c)
    return out
