"""E3 `pyvc`: verification conditions from the AST of small Python functions of the real code.

The source of the function under contract is re-read with `inspect` from the working tree on every run,
parsed with `ast`, and executed *symbolically*: every feasible path through the body is enumerated
(branches on symbolic conditions fork; loops over concrete sequences are unrolled; loops with a symbolic
trip count need an inductive invariant from the sidecar contract), each path carrying a path condition.
Names are resolved in the function's real globals/closure, so helper functions, classes and constants are
the real ones. Calls are resolved in this order: a *native* (assumed contract on a dependency or a
specification function given by the sidecar contract) -> its contract; a function listed in `inline` ->
interpreted from its own source; a concrete Python callable whose arguments are all concrete -> called for
real (partial evaluation); anything else -> an uninterpreted function of its arguments (A-pure).

Dropped by the extraction (stated once, here): annotations, docstrings, decorators (the caller of
`Executor.run` decides which function object is executed, e.g. the undecorated `__wrapped__`), type
comments, `assert` statements are treated as obligations, logging calls are uninterpreted.

Supported subset: assignment (names, tuple unpacking, attributes on records, subscripts on concrete
containers and symbolic maps), augmented assignment, if/elif/else, for over concrete sequences / dict
views / enumerate / zip, while (invariant), return, raise, try/except, pass, break/continue (in unrolled
loops), expression statements, comprehensions (list/set/dict/generator over concrete sequences), lambda,
nested def, conditional expressions, boolean operators, comparisons (incl. `in`, `is`), arithmetic,
f-strings (opaque), starred call arguments over concrete sequences. Anything else raises `Unsupported`
(-> undecided, never a violation).
"""

from __future__ import annotations

import ast
import builtins
import inspect
import itertools
import textwrap
from dataclasses import dataclass, field
from fractions import Fraction
from typing import Any, Callable, Iterator

import z3

Obj = z3.DeclareSort("Obj")


class Unsupported(Exception):
    pass


class SV:
    """Symbolic value: a z3 term with a sort tag in {'int','real','bool','obj'}."""

    __slots__ = ("t", "sort")

    def __init__(self, t, sort: str | None = None):
        self.t = t
        if sort is None:
            s = t.sort()
            sort = "int" if s == z3.IntSort() else "real" if s == z3.RealSort() else "bool" if s == z3.BoolSort() else "obj"
        self.sort = sort

    def __repr__(self) -> str:
        return f"SV<{self.sort}:{self.t}>"


class SList:
    """List of symbolic length: `length` (z3 Int) and `elem` (z3 Array Int -> elem sort)."""

    def __init__(self, length, elem, elem_sort: str):
        self.length, self.elem, self.elem_sort = length, elem, elem_sort


class SMap:
    """Finite map with symbolic domain: `has` (Array key -> Bool), `val` (Array key -> value). Keys/values are Obj."""

    def __init__(self, has, val):
        self.has, self.val = has, val


class Rec:
    """A heap record with concrete attribute names (used for `self`, simple namespaces, exceptions)."""

    def __init__(self, cls_name: str, attrs: dict[str, Any] | None = None, real_class: Any = None):
        self.cls_name, self.attrs, self.real_class = cls_name, dict(attrs or {}), real_class

    def __repr__(self) -> str:
        return f"Rec<{self.cls_name} {self.attrs}>"


@dataclass
class Exc:
    type_name: str
    args: tuple = ()
    where: str = ""


@dataclass
class Closure:
    node: Any  # ast.FunctionDef | ast.Lambda
    env: dict
    glob: dict
    name: str = "<lambda>"


class GenList(list):
    """The values of a generator (expression or function), computed eagerly; next() consumes from the front."""

    def __next__(self):
        if self:
            return self.pop(0)
        raise StopIteration


@dataclass
class Bound:
    func: Any
    self_val: Any


class State:
    def __init__(self):
        self.env: dict[str, Any] = {}
        self.frames: list[dict[str, Any]] = []  # environments of the callers of the function being interpreted (innermost last)
        self.pc: list[Any] = []
        self.trace: list[str] = []  # ghost trace of observable effects (contract-specific)
        self.ghost: dict[str, Any] = {}
        self.n = 0
        self.fwd: dict[int, tuple[Any, Any]] = {}

    def clone(self) -> "State":
        st = State()
        memo: dict[Any, Any] = {"__origs__": []}
        def clone_env(d: dict) -> dict:
            # the environment dicts themselves are registered: a Closure refers to its defining environment by reference and finds
            # this state's copy of it through the forwarding map (State.tr)
            new: dict[str, Any] = {}
            memo[id(d)] = new
            memo["__origs__"].append(d)
            for k, v in d.items():
                new[k] = _clone(v, memo)
            return new

        st.env = clone_env(self.env)
        st.frames = [clone_env(fr) for fr in self.frames]
        st.pc = list(self.pc)
        st.trace = list(self.trace)
        st.ghost = {k: _clone(v, memo) for k, v in self.ghost.items()}
        st.n = self.n
        # forwarding map: a mutable object of an ANCESTOR state -> this state's copy of it. The interpreter holds values in its own
        # (Python) locals while it evaluates sub-expressions; if such an evaluation forks, the forked state must not mutate (or store)
        # the ancestor's object through the held reference: `tr` translates it (used where held references are mutated or stored).
        fwd: dict[int, tuple[Any, Any]] = {}
        for oid, (orig, cur) in self.fwd.items():
            fwd[oid] = (orig, memo.get(id(cur), cur))
        for orig in memo["__origs__"]:
            fwd[id(orig)] = (orig, memo[id(orig)])
        st.fwd = fwd
        return st

    def tr(self, v):
        """This state's copy of a mutable object that was obtained from an ancestor state (identity if it is this state's own)."""
        if self.fwd and isinstance(v, (list, dict, set, Rec, SList, tuple)):
            hit = self.fwd.get(id(v))
            if hit is not None and hit[0] is v:
                return hit[1]
        return v


def _clone(v, memo):
    if isinstance(v, (list, dict, set, Rec)):
        if id(v) in memo:
            return memo[id(v)]
        memo.setdefault("__origs__", []).append(v)
        if isinstance(v, list):
            out: Any = type(v)() if type(v) is GenList else []
            memo[id(v)] = out
            out.extend(_clone(x, memo) for x in v)
        elif isinstance(v, dict):
            out = {}
            memo[id(v)] = out
            for k, x in v.items():
                out[k] = _clone(x, memo)
        elif isinstance(v, set):
            out = set(v)
            memo[id(v)] = out
        else:
            out = Rec(v.cls_name, {}, v.real_class)
            memo[id(v)] = out
            out.attrs = {k: _clone(x, memo) for k, x in v.attrs.items()}
        return out
    if isinstance(v, SList):
        if id(v) in memo:
            return memo[id(v)]
        out = SList(v.length, v.elem, v.elem_sort)
        memo[id(v)] = out
        memo.setdefault("__origs__", []).append(v)
        return out
    if isinstance(v, tuple) and any(isinstance(x, (list, dict, set, Rec, SList, tuple)) for x in v):
        # a tuple (or NamedTuple instance) is immutable itself but may HOLD mutable containers; forked paths must
        # not share them
        if id(v) in memo:
            return memo[id(v)]
        items = [_clone(x, memo) for x in v]
        if all(a is b for a, b in zip(items, v)):
            out = v
        elif type(v) is tuple:
            out = tuple(items)
        elif hasattr(v, "_fields"):
            out = tuple.__new__(type(v), items)
        else:
            out = v
        memo[id(v)] = out
        if out is not v:
            memo.setdefault("__origs__", []).append(v)
        return out
    if isinstance(v, Closure):
        return v  # closures capture their env by reference (cells); fine for the targets (no fork inside)
    return v


@dataclass
class Outcome:
    kind: str  # "return" | "raise"
    value: Any
    st: State


@dataclass
class PendingObligation:
    name: str
    hyps: list
    claim: Any
    note: str = ""


def is_sym(v) -> bool:
    return isinstance(v, (SV, SList, SMap))


def to_z3(v, want: str | None = None):
    """Concrete Python number/bool -> z3 value; SV -> its term."""
    if isinstance(v, SV):
        if want == "real" and v.sort == "int":
            return z3.ToReal(v.t)
        return v.t
    if isinstance(v, bool):
        return z3.BoolVal(v)
    if isinstance(v, int):
        return z3.RealVal(v) if want == "real" else z3.IntVal(v)
    if isinstance(v, Fraction):
        return z3.RealVal(f"{v.numerator}/{v.denominator}")
    if isinstance(v, float):
        f = Fraction(str(v))
        return z3.RealVal(f"{f.numerator}/{f.denominator}")
    raise Unsupported(f"cannot turn {type(v).__name__} into a z3 term")


def _num_sort(*vals) -> str:
    sorts = set()
    for v in vals:
        if isinstance(v, SV):
            sorts.add(v.sort)
        elif isinstance(v, bool):
            sorts.add("int")
        elif isinstance(v, int):
            sorts.add("int")
        elif isinstance(v, (float, Fraction)):
            sorts.add("real")
        else:
            raise Unsupported(f"arithmetic on {type(v).__name__}")
    if "obj" in sorts or "bool" in sorts and len(sorts) > 1:
        raise Unsupported(f"arithmetic on sorts {sorts}")
    return "real" if "real" in sorts else "int"


class Executor:
    def __init__(self, name: str = "", max_paths: int = 4000, solver_ms: int = 2000):
        self.name = name
        self.natives: dict[str, Callable] = {}
        self.native_objs: dict[int, Callable] = {}  # id(real python object) -> handler
        self.inline: set[Any] = set()  # real function objects to interpret instead of calling
        self.auto_inline_prefixes: tuple[str, ...] = ("ampform",)  # plain functions of these packages are interpreted when they are not natives
        self.auto_inlined: set[str] = set()
        self.keep_abstract: set[str] = set()  # names / qualnames of package functions that stay uninterpreted (assumed pure)
        self.abstracted_calls: set[str] = set()  # package functions that had to be abstracted (their body left the supported subset)
        self._inline_depth = 0
        self.invariants: dict[tuple[str, int], Callable] = {}  # (function name, loop ordinal) -> inv(ex, st) -> z3 Bool
        self.variants: dict[tuple[str, int], Callable] = {}
        self.havocs: dict[tuple[str, int], Callable] = {}  # (function, loop ordinal) -> havoc(ex, st): replace loop-modified symbolic maps by fresh ones
        self.obligations: list[PendingObligation] = []
        self.uf: dict[str, Any] = {}
        self.attr_sorts: dict[str, str] = {}  # attribute name -> sort of obj.attr for symbolic objects
        self.max_paths = max_paths
        self.paths = 0
        self.solver_ms = solver_ms
        self.fresh_n = 0
        self.allowed_real_calls = True
        self.axioms: list[Any] = []  # global axioms about uninterpreted functions (assumed contracts), each listed by the contract file
        self.obl_prefix = ""
        self._loop_counter: dict[str, int] = {}
        self.func_stack: list[str] = []

    # ---- symbols ---------------------------------------------------------------------
    def fresh(self, hint: str, sort: str = "obj") -> SV:
        self.fresh_n += 1
        nm = f"{hint}!{self.fresh_n}"
        if sort == "int":
            return SV(z3.Int(nm), "int")
        if sort == "real":
            return SV(z3.Real(nm), "real")
        if sort == "bool":
            return SV(z3.Bool(nm), "bool")
        return SV(z3.Const(nm, Obj), "obj")

    def func(self, name: str, *sorts):
        """Uninterpreted function (memoised by name)."""
        if name not in self.uf:
            zs = [{"int": z3.IntSort(), "real": z3.RealSort(), "bool": z3.BoolSort(), "obj": Obj}[s] for s in sorts]
            self.uf[name] = z3.Function(name, *zs)
        return self.uf[name]

    def as_obj(self, v) -> Any:
        """Embed any value into sort Obj (concrete values via an injective-by-name constant)."""
        if isinstance(v, SV):
            if v.sort == "obj":
                return v.t
            if v.sort == "int":
                return self.func("box_int", "int", "obj")(v.t)
            if v.sort == "real":
                return self.func("box_real", "real", "obj")(v.t)
            return self.func("box_bool", "bool", "obj")(v.t)
        if isinstance(v, (tuple, list)):
            # tuples/lists of values: encoded by an uninterpreted constructor per arity (congruence only)
            args = [self.as_obj(x) for x in v]
            if not args:
                return z3.Const("empty_seq", Obj)
            return self.func(f"seq{len(args)}", *(["obj"] * len(args)), "obj")(*args)
        return z3.Const(f"py:{_const_name(v)}", Obj)

    # ---- obligations -------------------------------------------------------------------
    def oblige(self, st: State, name: str, claim, note: str = "") -> None:
        full = self.obl_prefix + name
        k = sum(1 for o in self.obligations if o.name == full or o.name.startswith(full + "#"))
        nm = name if k == 0 else f"{name}#{k + 1}"
        self.obligations.append(PendingObligation(self.obl_prefix + nm, list(self.axioms) + list(st.pc), claim, note))

    def merged_obligations(self) -> list[PendingObligation]:
        """Obligations raised during execution, merged by base name (the `#k` suffixes depend on the number of paths):
        one obligation per kind of call-site precondition, And over all occurrences of (pc => claim)."""
        groups: dict[str, list[PendingObligation]] = {}
        for o in self.obligations:
            groups.setdefault(o.name.split("#")[0], []).append(o)
        out = []
        for base, lst in groups.items():
            claim = z3.And(*[z3.Implies(z3.And(*o.hyps) if o.hyps else z3.BoolVal(True), o.claim) for o in lst])
            out.append(PendingObligation(base, [], claim, f"{len(lst)} occurrence(s)"))
        return out

    def assume(self, st: State, fact) -> None:
        st.pc.append(fact)

    def feasible(self, st: State, extra=None) -> bool:
        s = z3.Solver()
        s.set("timeout", self.solver_ms)
        for a in self.axioms:
            s.add(a)
        for c in st.pc:
            s.add(c)
        if extra is not None:
            s.add(extra)
        return s.check() != z3.unsat

    # ---- entry -------------------------------------------------------------------------
    def run(self, func, args: list, kwargs: dict | None = None, st: State | None = None) -> list[Outcome]:
        """Symbolically execute the real function object `func`. Returns every path's outcome."""
        st = st or State()
        out = []
        try:
            for st2, kind, val in self.call_function(func, st, list(args), dict(kwargs or {})):
                out.append(Outcome(kind, val, st2))
        except Unsupported:
            raise
        except (TypeError, AttributeError, KeyError, IndexError, ValueError, z3.Z3Exception, RecursionError) as e:
            # the interpreter met a value/construct it has no semantics for: the code left the supported subset
            raise Unsupported(f"interpreter: {type(e).__name__}: {e}") from e
        return out

    def source_of(self, func) -> tuple[ast.AST, dict, str]:
        f = inspect.unwrap(func) if not isinstance(func, Closure) else func
        src = textwrap.dedent(inspect.getsource(f))
        tree = ast.parse(src).body[0]
        return tree, f.__globals__, f.__qualname__

    def call_function(self, func, st: State, args: list, kwargs: dict) -> Iterator[tuple[State, str, Any]]:
        """Interpret a real function (or a Closure). Yields (state, 'return'|'raise', value)."""
        nonlocals: list[str] = []
        if isinstance(func, Closure):
            # the defining environment as THIS state has it (the closure object is shared between forked states)
            node, glob, qual, cenv = func.node, func.glob, func.name, st.tr(func.env)
            if not isinstance(node, ast.Lambda):
                nonlocals = [nm for s_ in node.body for x in ast.walk(s_) if isinstance(x, ast.Nonlocal) for nm in x.names]
        else:
            node, glob, qual = self.source_of(func)
            cenv = {}
            if getattr(func, "__closure__", None):
                f = inspect.unwrap(func)
                for nm, cell in zip(f.__code__.co_freevars, f.__closure__ or ()):
                    try:
                        cenv[nm] = cell.cell_contents
                    except ValueError:
                        pass
        # the caller's environment is kept ON THE STATE (st.frames), so that a path that forks inside the callee carries its own copy
        # of the caller's locals and of the heap objects they point to (State.clone copies frames with the same memo as env): a shared
        # saved dict would let the first outcome's continuation (e.g. the next loop iteration) overwrite locals of the others
        env = dict(cenv)
        self._bind_params(node.args, env, args, kwargs, st, glob, qual)
        st.frames.append(st.env)
        st.env = env
        self.func_stack.append(qual)
        frame = (glob, qual)
        try:
            if isinstance(node, ast.Lambda):
                for st2, v in self.ev(node.body, st, frame):
                    st2.env = st2.frames.pop()
                    if isinstance(v, Exc):
                        yield st2, "raise", v
                    else:
                        yield st2, "return", v
                return
            is_generator = not isinstance(node, ast.Lambda) and _is_generator(node)
            if is_generator:
                st.ghost.setdefault("__yield__", []).append([])
            for st2, kind, val in self.block(node.body, st, frame):
                callee_env = st2.env
                st2.env = st2.frames.pop()
                if nonlocals:
                    outer = st2.tr(func.env)
                    for nm in nonlocals:  # `nonlocal x`: the callee's binding IS the defining function's variable
                        if nm in callee_env:
                            outer[nm] = callee_env[nm]
                if is_generator:
                    items = st2.ghost["__yield__"].pop()
                    if kind in {"next", "return"}:
                        yield st2, "return", GenList(items)  # the generator, fully consumed, as the list of what it yields
                        continue
                if kind == "next":
                    yield st2, "return", None
                elif kind in {"return", "raise"}:
                    yield st2, kind, val
                else:
                    raise Unsupported(f"{kind} outside loop")
        finally:
            self.func_stack.pop()

    def _bind_params(self, a: ast.arguments, env, args, kwargs, st, glob, qual) -> None:
        params = [p.arg for p in a.posonlyargs + a.args]
        defaults = a.defaults
        n_no_default = len(params) - len(defaults)
        args = list(args)
        for i, p in enumerate(params):
            if i < len(args):
                env[p] = args[i]
            elif p in kwargs:
                env[p] = kwargs.pop(p)
            elif i >= n_no_default:
                env[p] = self._const_eval(defaults[i - n_no_default], glob)
            else:
                raise Unsupported(f"missing argument {p} of {qual}")
        extra = args[len(params):]
        if a.vararg:
            env[a.vararg.arg] = tuple(extra)
        elif extra:
            raise Unsupported(f"too many positional arguments for {qual}")
        for p, d in zip(a.kwonlyargs, a.kw_defaults):
            if p.arg in kwargs:
                env[p.arg] = kwargs.pop(p.arg)
            elif d is not None:
                env[p.arg] = self._const_eval(d, glob)
            else:
                raise Unsupported(f"missing keyword-only argument {p.arg}")
        if a.kwarg:
            env[a.kwarg.arg] = dict(kwargs)
        elif kwargs:
            raise Unsupported(f"unexpected keyword arguments {list(kwargs)} for {qual}")

    def _const_eval(self, node, glob):
        try:
            return eval(compile(ast.Expression(node), "<default>", "eval"), glob)  # noqa: S307 - defaults of the real function
        except Exception as e:  # noqa: BLE001
            raise Unsupported(f"default value: {e}") from e

    # ---- statements -----------------------------------------------------------------------
    def block(self, stmts, st: State, frame) -> Iterator[tuple[State, str, Any]]:
        if not stmts:
            yield st, "next", None
            return
        head, rest = stmts[0], stmts[1:]
        for st2, kind, val in self.stmt(head, st, frame):
            if kind == "next":
                yield from self.block(rest, st2, frame)
            else:
                yield st2, kind, val

    def stmt(self, n, st: State, frame) -> Iterator[tuple[State, str, Any]]:
        self.paths += 1
        if self.paths > self.max_paths * 50:
            raise Unsupported("path explosion")
        if isinstance(n, ast.Expr):
            if isinstance(n.value, ast.Constant):
                yield st, "next", None
                return
            for st2, v in self.ev(n.value, st, frame):
                if isinstance(v, Exc):
                    yield st2, "raise", v
                else:
                    yield st2, "next", None
            return
        if isinstance(n, ast.Pass):
            yield st, "next", None
            return
        if isinstance(n, (ast.Import, ast.ImportFrom)):
            # a function-local import: the names are made available to `lookup` AFTER locals, globals and builtins (and natives keep
            # their precedence, they are matched by source name before any lookup)
            import importlib

            table = st.ghost.setdefault("__imports__", {})
            try:
                if isinstance(n, ast.Import):
                    for a in n.names:
                        mod = importlib.import_module(a.name)
                        table[a.asname or a.name.split(".")[0]] = mod if a.asname else importlib.import_module(a.name.split(".")[0])
                else:
                    mod = importlib.import_module("." * n.level + (n.module or ""), package=frame[0].get("__package__") or None)
                    for a in n.names:
                        if a.name != "*":
                            table[a.asname or a.name] = getattr(mod, a.name) if hasattr(mod, a.name) else importlib.import_module(f"{mod.__name__}.{a.name}")
            except Exception:  # noqa: BLE001  # the name stays unbound: using it is 'outside the subset'
                pass
            yield st, "next", None
            return
        if isinstance(n, (ast.Global, ast.Nonlocal)):
            yield st, "next", None
            return
        if isinstance(n, ast.Assign):
            for st2, v in self.ev(n.value, st, frame):
                if isinstance(v, Exc):
                    yield st2, "raise", v
                    continue
                for st3 in self._assign_all(n.targets, v, st2, frame):
                    yield st3, "next", None
            return
        if isinstance(n, ast.AnnAssign):
            if n.value is None:
                yield st, "next", None
                return
            for st2, v in self.ev(n.value, st, frame):
                if isinstance(v, Exc):
                    yield st2, "raise", v
                    continue
                for st3 in self._assign_all([n.target], v, st2, frame):
                    yield st3, "next", None
            return
        if isinstance(n, ast.AugAssign):
            load = _as_load(n.target)
            for st2, cur in self.ev(load, st, frame):
                for st3, rhs in self.ev(n.value, st2, frame):
                    if isinstance(cur, Exc) or isinstance(rhs, Exc):
                        yield st3, "raise", cur if isinstance(cur, Exc) else rhs
                        continue
                    if isinstance(n.op, ast.BitOr) and (isinstance(cur, (bool, SV))):
                        v = self.boolop_or(cur, rhs)
                    else:
                        v = self.binop(n.op, cur, rhs, st3)
                    for st4 in self._assign_all([n.target], v, st3, frame):
                        yield st4, "next", None
            return
        if isinstance(n, ast.Return):
            if n.value is None:
                yield st, "return", None
                return
            for st2, v in self.ev(n.value, st, frame):
                yield (st2, "raise", v) if isinstance(v, Exc) else (st2, "return", v)
            return
        if isinstance(n, ast.Raise):
            if n.exc is None:
                yield st, "raise", st.ghost.get("current_exception", Exc("Exception"))
                return
            for st2, v in self.ev(n.exc, st, frame):
                yield st2, "raise", v if isinstance(v, Exc) else self._as_exc(v)
            return
        if isinstance(n, ast.If):
            for st2, c in self.ev(n.test, st, frame):
                if isinstance(c, Exc):
                    yield st2, "raise", c
                    continue
                for st3, b in self.truth(st2, c):
                    yield from self.block(n.body if b else n.orelse, st3, frame)
            return
        if isinstance(n, ast.For):
            yield from self._for(n, st, frame)
            return
        if isinstance(n, ast.While):
            yield from self._while(n, st, frame)
            return
        if isinstance(n, ast.Break):
            yield st, "break", None
            return
        if isinstance(n, ast.Continue):
            yield st, "continue", None
            return
        if isinstance(n, ast.FunctionDef):
            st.env[n.name] = Closure(n, st.env, frame[0], f"{frame[1]}.<locals>.{n.name}")
            yield st, "next", None
            return
        if isinstance(n, ast.Try):
            yield from self._try(n, st, frame)
            return
        if isinstance(n, ast.With):
            yield from self._with(n, st, frame)
            return
        if isinstance(n, ast.Assert):
            for st2, c in self.ev(n.test, st, frame):
                self.oblige(st2, f"{frame[1]}.assert@{n.lineno}", self.as_bool(c))
                self.assume(st2, self.as_bool(c))
                yield st2, "next", None
            return
        if isinstance(n, ast.Delete):
            for t in n.targets:
                if isinstance(t, ast.Subscript):
                    for st2, cont in self.ev(t.value, st, frame):
                        for st3, key in self.ev(_index(t), st2, frame):
                            if isinstance(cont, dict):
                                cont.pop(_hashable(key), None)
                            elif isinstance(cont, list) and isinstance(key, int):
                                del cont[key]
                            else:
                                raise Unsupported("del on symbolic container")
                            yield st3, "next", None
                    return
            raise Unsupported("del")
        raise Unsupported(f"statement {type(n).__name__} at line {getattr(n, 'lineno', '?')}")

    def _as_exc(self, v) -> Exc:
        if isinstance(v, Rec) and v.attrs.get("__is_exception__"):
            return Exc(v.cls_name, tuple(v.attrs.get("args", ())))
        if isinstance(v, type) and issubclass(v, BaseException):
            return Exc(v.__name__)
        if isinstance(v, BaseException):
            return Exc(type(v).__name__, v.args)
        return Exc("Exception", (v,))

    def _assign_all(self, targets, v, st: State, frame) -> Iterator[State]:
        if len(targets) == 1:
            yield from self._assign(targets[0], v, st, frame)
            return
        for st2 in self._assign(targets[0], v, st, frame):
            yield from self._assign_all(targets[1:], v, st2, frame)

    def _assign(self, t, v, st: State, frame) -> Iterator[State]:
        v = st.tr(v)  # a value held since before a fork: store this state's copy
        if isinstance(t, ast.Name):
            st.env[t.id] = v
            yield st
            return
        if isinstance(t, (ast.Tuple, ast.List)):
            vals = self.concrete_seq(v, st)
            stars = [i for i, e in enumerate(t.elts) if isinstance(e, ast.Starred)]
            if stars:
                if len(stars) > 1 or len(vals) < len(t.elts) - 1:
                    raise Unsupported("starred assignment target")
                k = stars[0]
                n_after = len(t.elts) - k - 1
                mid = list(vals[k:len(vals) - n_after])
                vals = list(vals[:k]) + [mid] + list(vals[len(vals) - n_after:] if n_after else [])
                t = ast.Tuple(elts=[e.value if isinstance(e, ast.Starred) else e for e in t.elts], ctx=ast.Store())
            if len(vals) != len(t.elts):
                raise Unsupported(f"unpacking {len(vals)} values into {len(t.elts)} targets")
            sts = [st]
            for e, x in zip(t.elts, vals):
                sts = [s2 for s in sts for s2 in self._assign(e, x, s, frame)]
            yield from sts
            return
        if isinstance(t, ast.Attribute):
            for st2, o in self.ev(t.value, st, frame):
                v = st2.tr(v)
                if isinstance(o, Rec):
                    o.attrs[t.attr] = v
                    yield st2
                else:
                    h = self.lookup_native_method(o, "__setattr__")
                    if h is None:
                        raise Unsupported(f"attribute store on {type(o).__name__}")
                    for st3, _ in h(self, st2, [o, t.attr, v], {}):
                        yield st3
            return
        if isinstance(t, ast.Subscript):
            for st2, cont in self.ev(t.value, st, frame):
                for st3, key in self.ev(_index(t), st2, frame):
                    cont = st3.tr(cont)  # the key expression may have forked
                    v = st3.tr(v)
                    if isinstance(cont, dict):
                        yield from self.dict_put(st3, cont, key, v)
                    elif isinstance(cont, list) and isinstance(key, int):
                        cont[key] = v
                        yield st3
                    elif isinstance(cont, Rec) and "__map__" in cont.attrs:
                        m: SMap = cont.attrs["__map__"]
                        k = self.as_obj(key)
                        cont.attrs["__map__"] = SMap(z3.Store(m.has, k, True), z3.Store(m.val, k, self.as_obj(v)))
                        yield st3
                    else:
                        h = self.lookup_native_method(cont, "__setitem__")
                        if h is None:
                            raise Unsupported(f"subscript store on {type(cont).__name__}")
                        for st4, _ in h(self, st3, [cont, key, v], {}):
                            yield st4
            return
        raise Unsupported(f"assignment target {type(t).__name__}")

    def _for(self, n: ast.For, st: State, frame) -> Iterator[tuple[State, str, Any]]:
        for st2, it in self.ev(n.iter, st, frame):
            if isinstance(it, Exc):
                yield st2, "raise", it
                continue
            if isinstance(it, SList):
                yield from self._for_symbolic(n, it, st2, frame)
                continue
            items = self.concrete_seq(it, st2)
            yield from self._for_items(n, items, 0, st2, frame)

    def _for_symbolic(self, n: ast.For, lst: SList, st: State, frame) -> Iterator[tuple[State, str, Any]]:
        """`for x in <list of symbolic length>` with an inductive invariant inv(ex, st, i) from the sidecar contract
        (i = number of completed iterations): entry inv(0); havoc; assume inv(i), 0 <= i < len, x = lst[i]; body; oblige
        inv(i+1); after the loop assume inv(len). Records in the state must be mutated only through symbolic maps/lists that
        the invariant talks about (they are havocked by the contract's `havoc` hook)."""
        qual = frame[1]
        ordinal = self._loop_ordinal(n, frame)
        key = (qual.split(".")[-1], ordinal)
        inv = self.invariants.get(key)
        if inv is None:
            raise Unsupported(f"for loop {key} over a list of symbolic length needs an invariant")
        pre = f"{qual}.loop{ordinal}"
        self.oblige(st, f"{pre}.invariant_on_entry", inv(self, st, z3.IntVal(0)))
        for nm in _assigned_names(n.body):
            old = st.env.get(nm)
            if isinstance(old, (list, SList, Rec)):
                continue
            sort = old.sort if isinstance(old, SV) else ("int" if isinstance(old, int) and not isinstance(old, bool) else "obj")
            st.env[nm] = self.fresh(nm, sort)
        hv = self.havocs.get(key)
        if hv is not None:
            hv(self, st)
        self.fresh_n += 1
        i = z3.Int(f"iter!{self.fresh_n}")
        body_st = st.clone()
        exit_st = st
        # one arbitrary iteration
        self.assume(body_st, z3.And(i >= 0, i < lst.length))
        self.assume(body_st, inv(self, body_st, i))
        for s2 in self._assign(n.target, SV(z3.Select(lst.elem, i), lst.elem_sort), body_st, frame):
            for s3, kind, val in self.block(n.body, s2, frame):
                if kind in {"next", "continue"}:
                    self.oblige(s3, f"{pre}.invariant_preserved", inv(self, s3, i + 1))
                elif kind == "break":
                    raise Unsupported("break inside an invariant-based for loop")
                else:
                    yield s3, kind, val
        # after the loop
        self.assume(exit_st, inv(self, exit_st, lst.length))
        if n.orelse:
            yield from self.block(n.orelse, exit_st, frame)
        else:
            yield exit_st, "next", None

    def _for_items(self, n, items, i, st, frame):
        if i >= len(items):
            if n.orelse:
                yield from self.block(n.orelse, st, frame)
            else:
                yield st, "next", None
            return
        for st2 in self._assign(n.target, items[i], st, frame):
            for st3, kind, val in self.block(n.body, st2, frame):
                if kind in {"next", "continue"}:
                    yield from self._for_items(n, items, i + 1, st3, frame)
                elif kind == "break":
                    yield st3, "next", None
                else:
                    yield st3, kind, val

    def _while(self, n: ast.While, st: State, frame) -> Iterator[tuple[State, str, Any]]:
        qual = frame[1]
        ordinal = self._loop_ordinal(n, frame)
        key = (qual.split(".")[-1], ordinal)
        inv = self.invariants.get(key)
        if inv is None:
            # bounded unrolling is only allowed when the condition is concrete at each iteration
            count = 0
            cur = [st]
            while cur:
                nxt = []
                for s in cur:
                    for s2, c in self.ev(n.test, s, frame):
                        if is_sym(c):
                            raise Unsupported(f"while loop {key} with a symbolic condition needs an invariant")
                        if not c:
                            yield s2, "next", None
                            continue
                        for s3, kind, val in self.block(n.body, s2, frame):
                            if kind in {"next", "continue"}:
                                nxt.append(s3)
                            elif kind == "break":
                                yield s3, "next", None
                            else:
                                yield s3, kind, val
                cur = nxt
                count += 1
                if count > 200:
                    raise Unsupported("unbounded concrete while loop")
            return
        # --- invariant-based (Hoare) treatment ---
        pre = f"{qual}.loop{ordinal}"
        self.oblige(st, f"{pre}.invariant_on_entry", inv(self, st))
        assigned = _assigned_names(n.body)
        appended = _appended_names(n.body)
        h = st  # havoc in place: the pre-loop values are no longer needed
        for nm in assigned:
            old = h.env.get(nm)
            if nm in appended or isinstance(old, (list, SList)):
                continue
            sort = old.sort if isinstance(old, SV) else ("int" if isinstance(old, int) and not isinstance(old, bool) else "real" if isinstance(old, (float, Fraction)) else "obj")
            h.env[nm] = self.fresh(nm, sort)
        for nm in appended:
            old = h.env.get(nm)
            es = old.elem_sort if isinstance(old, SList) else self.attr_sorts.get(f"list:{nm}", "real")
            zs = {"int": z3.IntSort(), "real": z3.RealSort(), "obj": Obj, "bool": z3.BoolSort()}[es]
            self.fresh_n += 1
            h.env[nm] = SList(z3.Int(f"len_{nm}!{self.fresh_n}"), z3.Array(f"elem_{nm}!{self.fresh_n}", z3.IntSort(), zs), es)
            self.assume(h, h.env[nm].length >= 0)
        self.assume(h, inv(self, h))
        var = self.variants.get(key)
        for s2, c in self.ev(n.test, h.clone(), frame):
            for s3, b in self.truth(s2, c):
                if not b:
                    yield s3, "next", None  # loop exit: invariant and not condition
                    continue
                v0 = var(self, s3) if var else None
                for s4, kind, val in self.block(n.body, s3, frame):
                    if kind in {"next", "continue"}:
                        self.oblige(s4, f"{pre}.invariant_preserved", inv(self, s4))
                        if var:
                            self.oblige(s4, f"{pre}.variant_decreases", z3.And(var(self, s4) < v0, v0 >= 0))
                    elif kind == "break":
                        yield s4, "next", None
                    else:
                        yield s4, kind, val

    def _loop_ordinal(self, n, frame) -> int:
        key = f"{frame[1]}@{n.lineno}"
        if key not in self._loop_counter:
            self._loop_counter[key] = sum(1 for k in self._loop_counter if k.startswith(frame[1] + "@"))
        return self._loop_counter[key]

    def _try(self, n: ast.Try, st: State, frame) -> Iterator[tuple[State, str, Any]]:
        def finish(s, kind, val):
            if n.finalbody:
                for s2, k2, v2 in self.block(n.finalbody, s, frame):
                    if k2 == "next":
                        yield s2, kind, val
                    else:
                        yield s2, k2, v2
            else:
                yield s, kind, val

        for st2, kind, val in self.block(n.body, st, frame):
            if kind == "raise":
                handled = False
                for hnd in n.handlers:
                    if self._exc_matches(hnd.type, val, frame):
                        handled = True
                        if hnd.name:
                            st2.env[hnd.name] = val
                        st2.ghost["current_exception"] = val
                        for st3, k3, v3 in self.block(hnd.body, st2, frame):
                            yield from finish(st3, k3, v3)
                        break
                if not handled:
                    yield from finish(st2, kind, val)
            elif kind == "next" and n.orelse:
                for st3, k3, v3 in self.block(n.orelse, st2, frame):
                    yield from finish(st3, k3, v3)
            else:
                yield from finish(st2, kind, val)

    def _exc_matches(self, tnode, exc: Exc, frame) -> bool:
        if tnode is None:
            return True
        names = []
        for e in tnode.elts if isinstance(tnode, ast.Tuple) else [tnode]:
            names.append(ast.unparse(e).split(".")[-1])
        if exc.type_name in names:
            return True
        # subclass relation through the real builtins / known classes
        real = getattr(builtins, exc.type_name, None) or self._lookup_name_silent(exc.type_name, frame)
        for nm in names:
            base = getattr(builtins, nm, None) or self._lookup_name_silent(nm, frame)
            if isinstance(real, type) and isinstance(base, type) and issubclass(real, base):
                return True
        return False

    def _lookup_name_silent(self, nm, frame):
        try:
            return frame[0].get(nm)
        except Exception:  # noqa: BLE001
            return None

    def _with(self, n: ast.With, st: State, frame) -> Iterator[tuple[State, str, Any]]:
        """`with cm as x:` -- cm must evaluate to a Rec with __enter__/__exit__ natives (contract-provided)."""
        if len(n.items) != 1:
            raise Unsupported("with several items")
        item = n.items[0]
        for st2, cm in self.ev(item.context_expr, st, frame):
            if isinstance(cm, Exc):
                yield st2, "raise", cm
                continue
            enter = self.lookup_native_method(cm, "__enter__")
            exit_ = self.lookup_native_method(cm, "__exit__")
            if enter is None or exit_ is None:
                raise Unsupported(f"with on {cm.cls_name if isinstance(cm, Rec) else type(cm).__name__} without a contract")
            for st3, v in enter(self, st2, [cm], {}):
                if item.optional_vars is not None:
                    sts = list(self._assign(item.optional_vars, v, st3, frame))
                else:
                    sts = [st3]
                for st4 in sts:
                    for st5, kind, val in self.block(n.body, st4, frame):
                        for st6, _ in exit_(self, st5, [cm, kind, val], {}):
                            yield st6, kind, val

    # ---- truth & conversions -----------------------------------------------------------------
    def as_bool(self, v):
        """z3 Bool for the truthiness of v."""
        if isinstance(v, SV):
            if v.sort == "bool":
                return v.t
            if v.sort in {"int", "real"}:
                return v.t != 0
            return self.func("truthy", "obj", "bool")(v.t)
        if isinstance(v, SList):
            return v.length > 0
        if isinstance(v, Rec) and "__map__" in v.attrs:
            raise Unsupported("truthiness of a symbolic map")
        return z3.BoolVal(bool(v))

    def truth(self, st: State, v) -> Iterator[tuple[State, bool]]:
        if not is_sym(v) and not (isinstance(v, Rec) and "__map__" in v.attrs):
            yield st, bool(v) if not isinstance(v, Rec) else True
            return
        c = z3.simplify(self.as_bool(v))
        if z3.is_true(c):
            yield st, True
            return
        if z3.is_false(c):
            yield st, False
            return
        t_ok = self.feasible(st, c)
        f_ok = self.feasible(st, z3.Not(c))
        if t_ok and f_ok:
            other = st.clone()
            st.pc.append(c)
            other.pc.append(z3.Not(c))
            yield st, True
            yield other, False
        elif t_ok:
            st.pc.append(c)
            yield st, True
        elif f_ok:
            st.pc.append(z3.Not(c))
            yield st, False

    def concrete_seq(self, v, st) -> list:
        if isinstance(v, (list, tuple)):
            return list(v)
        if isinstance(v, dict):
            return [_unhash(k) for k in v]
        if isinstance(v, (set, frozenset)):
            return sorted(v, key=repr)
        if isinstance(v, (type({}.keys()), type({}.items()), type({}.values()))):
            # views of a concrete dict (keys may be wrapped symbolic values)
            if isinstance(v, type({}.items())):
                return [(_unhash(k), x) for k, x in v]
            return [_unhash(k) for k in v] if isinstance(v, type({}.keys())) else list(v)
        if isinstance(v, (range, map, zip, filter, enumerate)) or hasattr(v, "__next__"):
            return list(v)
        if isinstance(v, str):
            return list(v)
        h = self.lookup_native_method(v, "__iter__")
        if h is not None:
            for _, seq in h(self, st, [v], {}):
                return list(seq)
        raise Unsupported(f"iteration over {type(v).__name__} (symbolic length needs an invariant-based contract)")

    # ---- expressions ------------------------------------------------------------------------
    def ev(self, n, st: State, frame) -> Iterator[tuple[State, Any]]:
        if isinstance(n, ast.Constant):
            yield st, n.value
            return
        if isinstance(n, ast.Name):
            yield st, self.lookup(n.id, st, frame)
            return
        if isinstance(n, ast.Tuple):
            for st2, vals in self.ev_list(n.elts, st, frame):
                yield st2, vals if isinstance(vals, Exc) else tuple(vals)
            return
        if isinstance(n, ast.List):
            for st2, vals in self.ev_list(n.elts, st, frame):
                yield st2, vals if isinstance(vals, Exc) else list(vals)
            return
        if isinstance(n, ast.Set):
            for st2, vals in self.ev_list(n.elts, st, frame):
                yield st2, vals if isinstance(vals, Exc) else set(_hashable(x) for x in vals)
            return
        if isinstance(n, ast.Dict):
            for st2, ks in self.ev_list(n.keys, st, frame):
                for st3, vs in self.ev_list(n.values, st2, frame):
                    if isinstance(ks, Exc) or isinstance(vs, Exc):
                        yield st3, (ks if isinstance(ks, Exc) else vs)
                        continue
                    yield from self.dict_from_pairs(st3, list(zip(ks, vs)))
            return
        if isinstance(n, ast.BinOp):
            for st2, a in self.ev(n.left, st, frame):
                if isinstance(a, Exc):
                    yield st2, a
                    continue
                for st3, b in self.ev(n.right, st2, frame):
                    yield st3, b if isinstance(b, Exc) else self.binop(n.op, a, b, st3)
            return
        if isinstance(n, ast.UnaryOp):
            for st2, a in self.ev(n.operand, st, frame):
                if isinstance(a, Exc):
                    yield st2, a
                elif isinstance(n.op, ast.Not):
                    yield st2, (SV(z3.Not(self.as_bool(a)), "bool") if is_sym(a) else not a)
                elif isinstance(n.op, ast.USub):
                    if isinstance(a, SV) and a.sort == "obj":
                        yield st2, SV(self.func("op_usub", "obj", "obj")(a.t), "obj")  # opaque object (e.g. a SymPy symbol): uninterpreted negation
                    else:
                        yield st2, (SV(-a.t, a.sort) if isinstance(a, SV) else -a)
                elif isinstance(n.op, ast.UAdd):
                    yield st2, a
                else:
                    raise Unsupported("unary operator")
            return
        if isinstance(n, ast.BoolOp):
            yield from self._boolop(n, 0, st, frame)
            return
        if isinstance(n, ast.Compare):
            yield from self._compare(n, st, frame)
            return
        if isinstance(n, ast.IfExp):
            for st2, c in self.ev(n.test, st, frame):
                for st3, b in self.truth(st2, c):
                    yield from self.ev(n.body if b else n.orelse, st3, frame)
            return
        if isinstance(n, ast.Attribute):
            for st2, o in self.ev(n.value, st, frame):
                if isinstance(o, Exc):
                    yield st2, o
                    continue
                v = self.getattr(o, n.attr, st2)
                if isinstance(v, tuple) and len(v) == 3 and v[0] == "__property__":
                    # a property of the record's real class: its getter is interpreted from source (may fork or raise)
                    for st3, _kind, val in self.call_function(v[1], st2, [v[2]], {}):
                        yield st3, val
                    continue
                yield st2, v
            return
        if isinstance(n, ast.Subscript):
            for st2, o in self.ev(n.value, st, frame):
                if isinstance(o, Exc):
                    yield st2, o
                    continue
                if isinstance(n.slice, ast.Slice):
                    lo = self._const_or_none(n.slice.lower, st2, frame)
                    hi = self._const_or_none(n.slice.upper, st2, frame)
                    stp = self._const_or_none(n.slice.step, st2, frame)
                    if isinstance(o, (list, tuple, str)):
                        yield st2, o[slice(lo, hi, stp)]
                    else:
                        raise Unsupported("slice of a symbolic sequence")
                    continue
                for st3, k in self.ev(n.slice, st2, frame):
                    yield from self.getitem(o, k, st3)
            return
        if isinstance(n, ast.Call):
            yield from self._call(n, st, frame)
            return
        if isinstance(n, (ast.ListComp, ast.GeneratorExp, ast.SetComp)):
            for st2, vals in self._comp(n.generators, 0, lambda s: self.ev(n.elt, s, frame), st, frame):
                if isinstance(n, ast.SetComp):
                    for st3, d_ in self.dict_from_pairs(st2, [(x, None) for x in vals]):
                        yield st3, set(d_)
                elif isinstance(n, ast.GeneratorExp):
                    yield st2, GenList(vals)
                else:
                    yield st2, list(vals)
            return
        if isinstance(n, ast.DictComp):
            def kv(s):
                for s2, k in self.ev(n.key, s, frame):
                    for s3, v in self.ev(n.value, s2, frame):
                        yield s3, (k, v)

            for st2, pairs in self._comp(n.generators, 0, kv, st, frame):
                yield from self.dict_from_pairs(st2, list(pairs))
            return
        if isinstance(n, ast.Lambda):
            yield st, Closure(n, st.env, frame[0], "<lambda>")
            return
        if isinstance(n, ast.JoinedStr):
            # an f-string with concrete holes only matters as an opaque message; with a symbolic hole it is DATA (a name, a key):
            # an uninterpreted function of the template applied to the holes (injectivity is NOT assumed)
            holes = [v for v in n.values if isinstance(v, ast.FormattedValue)]
            text = ""
            for v in n.values:
                if isinstance(v, ast.Constant):
                    text += str(v.value).replace("{", "{{").replace("}", "}}")
                else:
                    spec = ""
                    if v.format_spec is not None:
                        spec = ":" + "".join(str(c.value) for c in v.format_spec.values if isinstance(c, ast.Constant))
                    text += "{" + spec + "}"
            for st2, vals in self.ev_list([h.value for h in holes], st, frame):
                if isinstance(vals, Exc):
                    yield st2, vals
                    continue
                if not any(is_sym(x) or isinstance(x, Rec) for x in vals):
                    yield st2, render_fstring(n, vals)  # all holes concrete: the string Python builds
                    continue
                text2, vals2 = fold_template(n, vals)
                fn = self.func("fmt:" + text2, *(["obj"] * len(vals2)), "obj")
                yield st2, SV(fn(*[self.as_obj(x) for x in vals2]), "obj")
            return
        if isinstance(n, ast.Yield):
            # generator body, evaluated EAGERLY: the yielded values are collected per call (see call_function). Sound for generators
            # that are consumed completely and do not communicate with their consumer through shared state between two yields.
            if not st.ghost.get("__yield__"):
                raise Unsupported("yield outside a generator call that this executor interprets")
            if n.value is None:
                st.ghost["__yield__"][-1].append(None)
                yield st, None
                return
            for st2, v in self.ev(n.value, st, frame):
                if isinstance(v, Exc):
                    yield st2, v
                    continue
                st2.ghost["__yield__"][-1].append(v)
                yield st2, None
            return
        if isinstance(n, ast.YieldFrom):
            if not st.ghost.get("__yield__"):
                raise Unsupported("yield from outside a generator call that this executor interprets")
            for st2, v in self.ev(n.value, st, frame):
                if isinstance(v, Exc):
                    yield st2, v
                    continue
                for item in self.concrete_seq(v, st2):
                    st2.ghost["__yield__"][-1].append(item)
                yield st2, None
            return
        if isinstance(n, ast.NamedExpr):  # (name := value): bind in the current frame, the value of the expression is the value bound
            for st2, v in self.ev(n.value, st, frame):
                if isinstance(v, Exc):
                    yield st2, v
                    continue
                for st3 in self._assign(n.target, v, st2, frame):
                    yield st3, v
            return
        if isinstance(n, ast.Starred):
            raise Unsupported("starred expression outside a call")
        raise Unsupported(f"expression {type(n).__name__}")

    def _const_or_none(self, node, st, frame):
        if node is None:
            return None
        for _, v in self.ev(node, st, frame):
            if is_sym(v):
                raise Unsupported("symbolic slice bound")
            return v

    def ev_list(self, nodes, st, frame, i=0, acc=None) -> Iterator[tuple[State, Any]]:
        acc = acc or []
        if i >= len(nodes):
            yield st, ([st.tr(x) for x in acc] if st.fwd else list(acc))
            return
        node = nodes[i]
        if isinstance(node, ast.Starred):
            for st2, v in self.ev(node.value, st, frame):
                if isinstance(v, Exc):
                    yield st2, v
                else:
                    yield from self.ev_list(nodes, st2, frame, i + 1, acc + self.concrete_seq(v, st2))
            return
        for st2, v in self.ev(node, st, frame):
            if isinstance(v, Exc):
                yield st2, v
            else:
                yield from self.ev_list(nodes, st2, frame, i + 1, acc + [v])

    def _comp(self, gens, gi, elt_fn, st, frame) -> Iterator[tuple[State, list]]:
        """Comprehension with generators gens[gi:]; yields (state, list of element values)."""
        if gi >= len(gens):
            for st2, v in elt_fn(st):
                yield st2, [v]
            return
        g = gens[gi]
        for st2, it in self.ev(g.iter, st, frame):
            items = self.concrete_seq(it, st2)
            yield from self._comp_items(gens, gi, items, 0, elt_fn, st2, frame, [])

    def _comp_items(self, gens, gi, items, i, elt_fn, st, frame, acc):
        if i >= len(items):
            yield st, acc
            return
        g = gens[gi]
        for st2 in self._assign(g.target, items[i], st, frame):
            yield from self._comp_ifs(gens, gi, items, i, g.ifs, 0, elt_fn, st2, frame, acc)

    def _comp_ifs(self, gens, gi, items, i, ifs, k, elt_fn, st, frame, acc):
        if k >= len(ifs):
            for st2, vals in self._comp(gens, gi + 1, elt_fn, st, frame):
                yield from self._comp_items(gens, gi, items, i + 1, elt_fn, st2, frame, acc + vals)
            return
        for st2, c in self.ev(ifs[k], st, frame):
            for st3, b in self.truth(st2, c):
                if b:
                    yield from self._comp_ifs(gens, gi, items, i, ifs, k + 1, elt_fn, st3, frame, acc)
                else:
                    yield from self._comp_items(gens, gi, items, i + 1, elt_fn, st3, frame, acc)

    def _boolop(self, n: ast.BoolOp, i, st, frame):
        for st2, v in self.ev(n.values[i], st, frame):
            if isinstance(v, Exc) or i == len(n.values) - 1:
                yield st2, v
                continue
            for st3, b in self.truth(st2, v):
                if isinstance(n.op, ast.And):
                    if b:
                        yield from self._boolop(n, i + 1, st3, frame)
                    else:
                        yield st3, v if not is_sym(v) else False
                else:
                    if b:
                        yield st3, v if not is_sym(v) else True
                    else:
                        yield from self._boolop(n, i + 1, st3, frame)

    def boolop_or(self, a, b):
        if is_sym(a) or is_sym(b):
            return SV(z3.Or(self.as_bool(a), self.as_bool(b)), "bool")
        return a | b

    def _compare(self, n: ast.Compare, st, frame):
        if len(n.ops) != 1:
            # a < b < c  ->  (a < b) and (b < c), without re-evaluating b (targets have no side effects there)
            parts = []
            left = n.left
            for op, right in zip(n.ops, n.comparators):
                parts.append(ast.Compare(left, [op], [right]))
                left = right
            yield from self.ev(ast.BoolOp(ast.And(), parts), st, frame)
            return
        op = n.ops[0]
        for st2, a in self.ev(n.left, st, frame):
            if isinstance(a, Exc):
                yield st2, a
                continue
            for st3, b in self.ev(n.comparators[0], st2, frame):
                if isinstance(b, Exc):
                    yield st3, b
                else:
                    yield from self.compare(op, a, b, st3)

    def compare(self, op, a, b, st) -> Iterator[tuple[State, Any]]:
        if isinstance(op, (ast.In, ast.NotIn)):
            for st2, r in self.contains(b, a, st):
                yield st2, (self._not(r) if isinstance(op, ast.NotIn) else r)
            return
        if isinstance(op, (ast.Is, ast.IsNot)):
            r = self.identical(a, b)
            yield st, (self._not(r) if isinstance(op, ast.IsNot) else r)
            return
        if not is_sym(a) and not is_sym(b):
            h = self.lookup_native_method(a, "__eq__") if isinstance(op, (ast.Eq, ast.NotEq)) else None
            if h is not None:
                for st2, r in h(self, st, [a, b], {}):
                    yield st2, (self._not(r) if isinstance(op, ast.NotEq) else r)
                return
            if isinstance(a, Rec) or isinstance(b, Rec):
                if isinstance(op, ast.Eq):
                    yield st, a is b
                    return
                if isinstance(op, ast.NotEq):
                    yield st, a is not b
                    return
            f = {ast.Eq: lambda x, y: x == y, ast.NotEq: lambda x, y: x != y, ast.Lt: lambda x, y: x < y,
                 ast.LtE: lambda x, y: x <= y, ast.Gt: lambda x, y: x > y, ast.GtE: lambda x, y: x >= y}[type(op)]
            yield st, f(a, b)
            return
        if isinstance(op, (ast.Eq, ast.NotEq)):
            r = self.equal(a, b)
            yield st, (self._not(r) if isinstance(op, ast.NotEq) else r)
            return
        want = _num_sort(a, b)
        x, y = to_z3(a, want), to_z3(b, want)
        if want == "real":
            x = z3.ToReal(x) if x.sort() == z3.IntSort() else x
            y = z3.ToReal(y) if y.sort() == z3.IntSort() else y
        t = {ast.Lt: x < y, ast.LtE: x <= y, ast.Gt: x > y, ast.GtE: x >= y}[type(op)]
        yield st, SV(t, "bool")

    def _not(self, r):
        return SV(z3.Not(r.t), "bool") if isinstance(r, SV) else (not r)

    def dict_put(self, st: State, cont: dict, k, v, skip: int = 0) -> Iterator[State]:
        """cont[k] = v for a dict that lives IN the state (reachable from its environment), k possibly symbolic: forks on every feasible
        coincidence of k with an existing key (see dict_from_pairs); after a fork the other path's copy of the dict is st.tr(cont)."""
        cont, k, v = st.tr(cont), st.tr(k), st.tr(v)
        hk = _hashable(k)
        if hk in cont:
            cont[hk] = v
            yield st
            return
        keys = list(cont)
        for pos in range(skip, len(keys)):
            e = keys[pos]
            ek = _unhash(e)
            if not (isinstance(k, SV) or isinstance(ek, SV)) or isinstance(k, Rec) or isinstance(ek, Rec):
                continue
            outs = list(self.truth(st, self.equal(ek, k)))
            if not outs:
                return  # the path condition is unsatisfiable: a dead path
            if len(outs) == 1:
                st, same = outs[0]
                cont, v = st.tr(cont), st.tr(v)
                if same:
                    cont[e] = v
                    yield st
                    return
                continue
            (st_t, _), (st_f, _) = (outs[0], outs[1]) if outs[0][1] else (outs[1], outs[0])
            st_t.tr(cont)[e] = st_t.tr(v)
            yield st_t
            yield from self.dict_put(st_f, st_f.tr(cont), k, st_f.tr(v), pos + 1)
            return
        cont[hk] = v
        yield st

    def dict_from_pairs(self, st: State, pairs: list, i: int = 0, acc: dict | None = None) -> Iterator[tuple[State, dict]]:
        """The dict that inserting `pairs` in order builds, when keys may be SYMBOLIC scalars/objects: two different key terms may be
        EQUAL values, in which case the later pair overwrites the earlier one's value (and keeps its position). Forks on every
        feasible coincidence between a symbolic key and an existing key (records as keys stay identity-keyed). The dict under
        construction belongs to the caller, so it is copied on each fork."""
        acc = {} if acc is None else acc
        while i < len(pairs):
            k, v = pairs[i]
            k, v = st.tr(k), st.tr(v)
            hk = _hashable(k)
            if hk in acc:
                acc[hk] = v
                i += 1
                continue
            merged = False
            for e in list(acc):
                ek = _unhash(e)
                if not (isinstance(k, SV) or isinstance(ek, SV)) or isinstance(k, Rec) or isinstance(ek, Rec):
                    continue  # two concrete keys are decided by their hash/eq above; records are identity-keyed
                outs = list(self.truth(st, self.equal(ek, k)))
                if not outs:
                    return  # the path condition is unsatisfiable: a dead path
                if len(outs) == 1:
                    st, same = outs[0]
                    if same:
                        acc[e] = v
                        merged = True
                        break
                    continue
                (st_t, _), (st_f, _) = (outs[0], outs[1]) if outs[0][1] else (outs[1], outs[0])
                acc_t = {kk: st_t.tr(vv) for kk, vv in acc.items()}
                acc_t[e] = st_t.tr(v)
                yield from self.dict_from_pairs(st_t, pairs, i + 1, acc_t)
                acc = {kk: st_f.tr(vv) for kk, vv in acc.items()}
                st, v = st_f, st_f.tr(v)
            if not merged:
                acc[hk] = v
            i += 1
        yield st, acc

    def equal(self, a, b):
        """Python == on possibly symbolic values -> SV bool or bool."""
        if isinstance(a, SV) and a.sort == "obj" or isinstance(b, SV) and b.sort == "obj":
            return SV(self.as_obj(a) == self.as_obj(b), "bool")
        if a is None or b is None or isinstance(a, str) or isinstance(b, str):
            if is_sym(a) or is_sym(b):
                return False  # numbers/bools never equal None or a string
            return a == b
        if isinstance(a, SV) and a.sort == "bool" or isinstance(b, SV) and b.sort == "bool":
            return SV(self.as_bool(a) == self.as_bool(b), "bool")
        want = _num_sort(a, b)
        x, y = to_z3(a, want), to_z3(b, want)
        if want == "real":
            x = z3.ToReal(x) if x.sort() == z3.IntSort() else x
            y = z3.ToReal(y) if y.sort() == z3.IntSort() else y
        return SV(x == y, "bool")

    def identical(self, a, b):
        if isinstance(a, SV) and a.sort == "obj" or isinstance(b, SV) and b.sort == "obj":
            return SV(self.as_obj(a) == self.as_obj(b), "bool")
        if is_sym(a) or is_sym(b):
            if a is None or b is None:
                return False
            return self.equal(a, b)
        return a is b

    def contains(self, cont, item, st) -> Iterator[tuple[State, Any]]:
        if isinstance(cont, Rec) and "__map__" in cont.attrs:
            m: SMap = cont.attrs["__map__"]
            yield st, SV(z3.Select(m.has, self.as_obj(item)), "bool")
            return
        h = self.lookup_native_method(cont, "__contains__")
        if h is not None:
            yield from h(self, st, [cont, item], {})
            return
        if isinstance(cont, SList):
            i = z3.Int(f"i!in{self.fresh_n}")
            self.fresh_n += 1
            yield st, SV(z3.Exists([i], z3.And(i >= 0, i < cont.length, z3.Select(cont.elem, i) == to_z3(item, cont.elem_sort))), "bool")
            return
        if isinstance(cont, (dict, list, tuple, set, frozenset)):
            members = [_unhash(x) for x in cont]  # keys / elements may be wrapped symbolic values
            if _hashable(item) in cont if isinstance(cont, (dict, set, frozenset)) else False:
                yield st, True  # the very same term
            elif is_sym(item) or any(is_sym(x) for x in members):
                ors = [self.as_bool(self.equal(x, item)) for x in members if not (isinstance(x, Rec) or isinstance(item, Rec)) or x is item]
                yield st, SV(z3.Or(*ors) if ors else z3.BoolVal(False), "bool")
            else:
                yield st, (_hashable(item) in cont if isinstance(cont, (dict, set, frozenset)) else item in cont)
            return
        if isinstance(cont, str) and isinstance(item, str):
            yield st, item in cont
            return
        raise Unsupported(f"`in` on {type(cont).__name__}")

    def binop(self, op, a, b, st):
        if not is_sym(a) and not is_sym(b):
            if isinstance(a, float):
                a = Fraction(str(a))
            if isinstance(b, float):
                b = Fraction(str(b))
            if isinstance(a, Rec) or isinstance(b, Rec):
                raise Unsupported("arithmetic on records")
            f = {ast.Add: lambda x, y: x + y, ast.Sub: lambda x, y: x - y, ast.Mult: lambda x, y: x * y,
                 ast.Div: lambda x, y: Fraction(x) / Fraction(y) if isinstance(x, (int, Fraction)) and isinstance(y, (int, Fraction)) else x / y,
                 ast.FloorDiv: lambda x, y: x // y, ast.Mod: lambda x, y: x % y, ast.Pow: lambda x, y: x**y,
                 ast.BitOr: lambda x, y: x | y, ast.BitAnd: lambda x, y: x & y}.get(type(op))
            if f is None:
                raise Unsupported(f"operator {type(op).__name__}")
            return f(a, b)
        if isinstance(a, SV) and a.sort == "obj" or isinstance(b, SV) and b.sort == "obj":
            # arithmetic on opaque objects (e.g. SymPy expressions): uninterpreted, congruent
            nm = type(op).__name__.lower()
            return SV(self.func(f"op_{nm}", "obj", "obj", "obj")(self.as_obj(a), self.as_obj(b)), "obj")
        if isinstance(op, ast.BitOr):
            return self.boolop_or(a, b)
        want = _num_sort(a, b)
        if isinstance(op, ast.Div):
            want = "real"
        x, y = to_z3(a, want), to_z3(b, want)
        if want == "real":
            x = z3.ToReal(x) if x.sort() == z3.IntSort() else x
            y = z3.ToReal(y) if y.sort() == z3.IntSort() else y
        if isinstance(op, ast.Add):
            return SV(x + y, want)
        if isinstance(op, ast.Sub):
            return SV(x - y, want)
        if isinstance(op, ast.Mult):
            return SV(x * y, want)
        if isinstance(op, ast.Div):
            self.oblige(st, f"{self.func_stack[-1] if self.func_stack else ''}.division_by_zero", y != 0)
            return SV(x / y, "real")
        if isinstance(op, ast.Mod) and want == "int":
            return SV(x % y, "int")
        if isinstance(op, ast.FloorDiv) and want == "int":
            return SV(x / y, "int")
        raise Unsupported(f"symbolic operator {type(op).__name__}")

    # ---- attribute / item access ------------------------------------------------------------
    def getattr(self, o, attr: str, st):
        if isinstance(o, Rec):
            if attr in o.attrs:
                return o.attrs[attr]
            h = self.lookup_native_method(o, attr)
            if h is not None:
                return Bound(h, o)
            if "__map__" in o.attrs and attr in _SMAP_METHODS:
                return Bound(_SMAP_METHODS[attr], o)
            if o.real_class is not None and not hasattr(o.real_class, attr) and attr.startswith("__") and not attr.endswith("__"):
                # a private name used inside the class body: Python mangles it with the name of the class that defines the method
                for klass in o.real_class.__mro__:
                    if hasattr(o.real_class, f"_{klass.__name__.lstrip('_')}{attr}"):
                        attr = f"_{klass.__name__.lstrip('_')}{attr}"
                        break
            if o.real_class is not None and hasattr(o.real_class, attr):
                raw = inspect.getattr_static(o.real_class, attr)
                if isinstance(raw, property):
                    return ("__property__", raw.fget, o)
                f = getattr(o.real_class, attr)
                if callable(f):
                    return Bound(f, o)
                return f
            raise Unsupported(f"attribute {attr} of record {o.cls_name}")
        if isinstance(o, SV) and o.sort == "obj":
            h = self.natives.get(f"obj.{attr}")
            if h is not None:
                return Bound(h, o)
            sort = self.attr_sorts.get(attr, "obj")
            t = self.func(f"attr_{attr}", "obj", sort)(o.t)
            return SV(t, sort)
        h = self.lookup_native_method(o, attr)
        if h is not None:
            return Bound(h, o)
        if is_sym(o):
            raise Unsupported(f"attribute {attr} of {type(o).__name__}")
        return getattr(o, attr)

    def getitem(self, o, k, st) -> Iterator[tuple[State, Any]]:
        if isinstance(o, Rec) and "__map__" in o.attrs:
            m: SMap = o.attrs["__map__"]
            kk = self.as_obj(k)
            self.oblige(st, f"{self.func_stack[-1] if self.func_stack else ''}.key_present", z3.Select(m.has, kk), note="dict[key] needs key in dict")
            yield st, SV(z3.Select(m.val, kk), "obj")
            return
        h = self.lookup_native_method(o, "__getitem__")
        if h is not None:
            yield from h(self, st, [o, k], {})
            return
        if isinstance(o, SList):
            kt = to_z3(k, "int")
            self.oblige(st, f"{self.func_stack[-1] if self.func_stack else ''}.index_in_range", z3.And(kt >= -o.length, kt < o.length))
            idx = z3.If(kt < 0, kt + o.length, kt)
            yield st, SV(z3.Select(o.elem, idx), o.elem_sort)
            return
        if isinstance(o, dict):
            hk = _hashable(k)
            if hk in o:
                yield st, o[hk]
                return
            # a symbolic key (or symbolic keys in the dict): the lookup hits the first existing key that EQUALS k
            for e in list(o):
                ek = _unhash(e)
                if not (isinstance(k, SV) or isinstance(ek, SV)) or isinstance(k, Rec) or isinstance(ek, Rec):
                    continue
                outs = list(self.truth(st, self.equal(ek, k)))
                if not outs:
                    return  # the path condition is unsatisfiable: a dead path
                if len(outs) == 1:
                    st, same = outs[0]
                    o = st.tr(o)
                    if same:
                        yield st, o[e]
                        return
                    continue
                (st_t, _), (st_f, _) = (outs[0], outs[1]) if outs[0][1] else (outs[1], outs[0])
                yield st_t, st_t.tr(o)[e]
                st, o = st_f, st_f.tr(o)
            yield st, Exc("KeyError", (k,))
            return
        if isinstance(o, (list, tuple, str)):
            if is_sym(k):
                raise Unsupported("symbolic index into a concrete sequence")
            try:
                yield st, o[k]
            except IndexError:
                yield st, Exc("IndexError")
            return
        if isinstance(o, SV) and o.sort == "obj":
            yield st, SV(self.func("getitem", "obj", "obj", "obj")(o.t, self.as_obj(k)), "obj")
            return
        try:
            yield st, o[k]
        except Exception as e:  # noqa: BLE001
            raise Unsupported(f"subscript on {type(o).__name__}: {e}") from e

    def lookup(self, name: str, st, frame):
        if name in st.env:
            return st.env[name]
        glob = frame[0]
        if name in glob:
            return glob[name]
        if hasattr(builtins, name):
            return getattr(builtins, name)
        if name in st.ghost.get("__imports__", {}):
            return st.ghost["__imports__"][name]
        raise Unsupported(f"unbound name {name}")

    def lookup_native_method(self, o, attr: str):
        if isinstance(o, Rec):
            return self.natives.get(f"{o.cls_name}.{attr}")
        if isinstance(o, SList):
            return self.natives.get(f"list.{attr}")
        if isinstance(o, list):
            return self.natives.get(f"pylist.{attr}")
        if isinstance(o, dict):
            return self.natives.get(f"pydict.{attr}")
        return None

    # ---- calls ---------------------------------------------------------------------------------
    def _call(self, n: ast.Call, st, frame) -> Iterator[tuple[State, Any]]:
        src_name = _dotted(n.func)
        for st2, f in self._callee(n.func, st, frame):
            if isinstance(f, Exc):
                yield st2, f
                continue
            for st3, args in self.ev_list(n.args, st2, frame):
                if isinstance(args, Exc):
                    yield st3, args
                    continue
                yield from self._call_kw(n.keywords, 0, {}, f, args, src_name, st3, frame)

    def _call_kw(self, kws, i, acc, f, args, src_name, st, frame):
        if i >= len(kws):
            yield from self.apply(f, args, acc, st, src_name)
            return
        kw = kws[i]
        for st2, v in self.ev(kw.value, st, frame):
            if isinstance(v, Exc):
                yield st2, v
                continue
            acc2 = dict(acc)
            if kw.arg is None:
                if not isinstance(v, dict):
                    raise Unsupported("** of a non-dict")
                acc2.update({_unhash(k): x for k, x in v.items()})
            else:
                acc2[kw.arg] = v
            yield from self._call_kw(kws, i + 1, acc2, f, args, src_name, st2, frame)

    def _callee(self, fn, st, frame) -> Iterator[tuple[State, Any]]:
        name = _dotted(fn)
        if name and name in self.natives and not (isinstance(fn, ast.Name) and fn.id in st.env):
            yield st, ("__native__", self.natives[name], name)
            return
        yield from self.ev(fn, st, frame)

    def _singledispatch(self, f, args, kwargs, st) -> Iterator[tuple[State, Any]]:
        if not args:
            raise Unsupported("singledispatch function called without positional argument")
        a = args[0]
        if isinstance(a, Rec) and a.real_class is not None:
            yield from self.apply(f.dispatch(a.real_class), args, kwargs, st)
            return
        if not (is_sym(a) or isinstance(a, Rec)):
            yield from self.apply(f.dispatch(type(a)), args, kwargs, st)
            return
        classes = sorted((c for c in f.registry if c is not object), key=lambda c: -len(c.__mro__))  # a subclass before its bases
        for i, c in enumerate(classes):
            for d in classes[i + 1:]:
                if not issubclass(c, d) and _may_share_instances(c, d):
                    raise Unsupported(f"singledispatch: {c.__name__} and {d.__name__} may share instances (dispatch by MRO not modelled)")
        isinst = self.natives.get("isinstance")
        if isinst is None:
            raise Unsupported("singledispatch on a symbolic argument needs an isinstance contract")

        def go(i, st_):
            if i == len(classes):
                yield from self.apply(f.registry[object], args, kwargs, st_)
                return
            for st2, cond in isinst(self, st_, [a, classes[i]], {}):
                for st3, b in self.truth(st2, cond):
                    if b:
                        yield from self.apply(f.registry[classes[i]], args, kwargs, st3)
                    else:
                        yield from go(i + 1, st3)

        yield from go(0, st)

    def apply(self, f, args: list, kwargs: dict, st: State, src_name: str = "") -> Iterator[tuple[State, Any]]:
        """Call value f. Yields (state, value | Exc)."""
        if st.fwd:
            # callee and arguments were evaluated one after the other; a later evaluation may have forked: use this state's copies
            args = [st.tr(a) for a in args]
            kwargs = {k: st.tr(v) for k, v in kwargs.items()}
            if isinstance(f, Bound):
                own = st.tr(f.self_val)
                if own is not f.self_val:
                    f = Bound(f.func, own)
            else:
                owner = getattr(f, "__self__", None)
                if isinstance(owner, (list, dict, set)) and st.tr(owner) is not owner and isinstance(getattr(f, "__name__", None), str):
                    f = getattr(st.tr(owner), f.__name__)
        if isinstance(f, tuple) and f and f[0] == "__native__":
            yield from f[1](self, st, args, kwargs)
            return
        if isinstance(f, tuple) and f and f[0] == "__property__":
            raise Unsupported("calling a property")
        if isinstance(f, tuple) and f and f[0] == "__methodcaller__":
            _, mname_, margs, mkw = f
            if len(args) != 1 or kwargs:
                raise Unsupported("methodcaller object called with other than one argument")
            m = self.getattr(args[0], mname_, st)
            yield from self.apply(m, list(margs), dict(mkw), st, f"obj.{mname_}")
            return
        import operator as _op

        if f is _op.methodcaller and args and isinstance(args[0], str):
            # operator.methodcaller(name, *a, **k): a callable x -> x.name(*a, **k) (kept symbolic: the arguments may be symbolic)
            yield st, ("__methodcaller__", args[0], tuple(args[1:]), dict(kwargs))
            return
        if isinstance(f, (_op.attrgetter, _op.itemgetter, _op.methodcaller)) and len(args) == 1 and not kwargs and (_has_sym(args[0])):
            ctor, cargs = f.__reduce__()[:2]
            if ctor is _op.attrgetter and all(isinstance(a, str) and "." not in a for a in cargs):
                vals = []
                for a in cargs:
                    v = self.getattr(args[0], a, st)
                    if isinstance(v, tuple) and len(v) == 3 and v[0] == "__property__":
                        outs_p = list(self.call_function(v[1], st, [v[2]], {}))
                        if len(outs_p) != 1 or outs_p[0][0] is not st or outs_p[0][1] != "return":
                            raise Unsupported("attrgetter on a property that forks or raises")
                        v = outs_p[0][2]
                    vals.append(v)
                yield st, (vals[0] if len(vals) == 1 else tuple(vals))
                return
            if ctor is _op.itemgetter and len(cargs) == 1:
                yield from self.getitem(args[0], cargs[0], st)
                return
            if ctor is _op.methodcaller and cargs and isinstance(cargs[0], str):
                m = self.getattr(args[0], cargs[0], st)
                yield from self.apply(m, list(cargs[1:]), {}, st, f"obj.{cargs[0]}")
                return
        if isinstance(f, Bound):
            if callable(f.func) and not isinstance(f.func, Closure) and (f.func in self.natives.values() or f.func in _SMAP_METHODS.values()):
                yield from f.func(self, st, [f.self_val, *args], kwargs)
                return
            yield from self.apply(f.func, [f.self_val, *args], kwargs, st, src_name)
            return
        if isinstance(f, Closure):
            for st2, kind, val in self.call_function(f, st, args, kwargs):
                yield st2, (val if kind == "return" else val)
            return
        if id(f) in self.native_objs:
            yield from self.native_objs[id(f)](self, st, args, kwargs)
            return
        if callable(f) and hasattr(f, "registry") and hasattr(f, "dispatch") and hasattr(f, "__wrapped__") and id(f) not in self.native_objs \
                and (getattr(f, "__module__", "") or "").startswith(self.auto_inline_prefixes):
            # functools.singledispatch wrapper: __wrapped__ is only the DEFAULT implementation; the call goes to the implementation
            # registered for the class of the first argument
            yield from self._singledispatch(f, args, kwargs, st)
            return
        target = inspect.unwrap(f) if callable(f) and hasattr(f, "__wrapped__") else f
        if f in self.inline or target in self.inline:
            for st2, kind, val in self.call_function(target, st, args, kwargs):
                yield st2, val
            return
        owner_ = getattr(f, "__self__", None)
        if isinstance(owner_, dict) and not isinstance(f, Bound) and (any(isinstance(x, _HK) and is_sym(x.v) for x in owner_) or any(is_sym(a) for a in args[:1])):
            # a key-based method of a concrete dict where the key or some existing keys are symbolic: equality of keys decides, not identity
            mname_ = getattr(f, "__name__", "")
            if mname_ == "get" and 1 <= len(args) <= 2 and not kwargs:
                default = args[1] if len(args) == 2 else None
                for st2, val in self.getitem(owner_, args[0], st):
                    yield st2, (default if isinstance(val, Exc) and val.type_name == "KeyError" else val)
                return
            if mname_ == "__getitem__" and len(args) == 1:
                yield from self.getitem(owner_, args[0], st)
                return
            if mname_ == "__contains__" and len(args) == 1:
                yield from self.contains(owner_, args[0], st)
                return
            if mname_ == "__setitem__" and len(args) == 2:
                for st2 in self.dict_put(st, owner_, args[0], args[1]):
                    yield st2, None
                return
            if mname_ == "setdefault" and 1 <= len(args) <= 2 and not kwargs:
                default = args[1] if len(args) == 2 else None
                for st2, val in self.getitem(owner_, args[0], st):
                    if isinstance(val, Exc) and val.type_name == "KeyError":
                        # on this path the key equals none of the existing keys (the lookup excluded every coincidence): plain insertion
                        st2.tr(owner_)[_hashable(st2.tr(args[0]))] = st2.tr(default)
                        yield st2, st2.tr(default)
                    else:
                        yield st2, val
                return
            if mname_ in {"pop", "setdefault", "__delitem__", "update", "popitem"}:
                raise Unsupported(f"dict.{mname_} on a dict whose keys may coincide symbolically")
        concrete = not any(_has_sym(a) for a in args) and not any(_has_sym(v) for v in kwargs.values())
        if concrete and callable(f) and self.allowed_real_calls:
            try:
                yield st, f(*args, **kwargs)
            except Exception as e:  # noqa: BLE001
                yield st, Exc(type(e).__name__, e.args)
            return
        if isinstance(f, type) and issubclass(f, BaseException):
            yield st, Exc(f.__name__, tuple(args))
            return
        if f is builtins.len:
            v = args[0]
            if isinstance(v, SList):
                yield st, SV(v.length, "int")
            elif isinstance(v, Rec) and "__len__" in v.attrs:
                yield st, v.attrs["__len__"]
            else:
                yield st, len(v)
            return
        if f is builtins.isinstance and not is_sym(args[0]) and not isinstance(args[0], Rec):
            yield st, isinstance(*args)
            return
        def _numeric(x):
            return (isinstance(x, SV) and x.sort in {"int", "real"}) or (isinstance(x, (int, float)) and not isinstance(x, bool))

        if f is builtins.sorted and len(args) == 1 and set(kwargs) <= {"key", "reverse"} and isinstance(args[0], (list, tuple, dict, set, frozenset, type({}.keys()), type({}.items()), type({}.values()))) \
                and not _has_sym(kwargs.get("reverse", False)):
            # sorted() of a concrete collection of concrete elements (e.g. the keys of a dict whose VALUES are symbolic), with a key
            # function whose results are concrete: the real sort
            items = self.concrete_seq(args[0], st)
            keyf = kwargs.get("key")
            if keyf is not None or not any(_has_sym(x) for x in items):
                keys: list | None = list(items)
                if keyf is not None:
                    keys = []
                    for x in items:
                        outs_k = list(self.apply(keyf, [x], {}, st))
                        if len(outs_k) != 1 or outs_k[0][0] is not st or isinstance(outs_k[0][1], Exc) or _has_sym(outs_k[0][1]):
                            keys = None
                            break
                        keys.append(outs_k[0][1])
                if keys is not None:
                    try:
                        order = sorted(range(len(items)), key=lambda i: keys[i], reverse=bool(kwargs.get("reverse", False)))
                    except TypeError as e:
                        yield st, Exc("TypeError", e.args)
                        return
                    yield st, [items[i] for i in order]
                    return
        if f is builtins.abs and len(args) == 1 and isinstance(args[0], SV) and args[0].sort in {"int", "real"}:
            yield st, SV(z3.If(args[0].t >= 0, args[0].t, -args[0].t), args[0].sort)
            return
        if f in (builtins.min, builtins.max) and not kwargs and args:
            items = list(args) if len(args) > 1 else (self.concrete_seq(args[0], st) if isinstance(args[0], (list, tuple)) else None)
            if items and all(_numeric(x) for x in items) and any(isinstance(x, SV) for x in items):
                want = "real" if any((isinstance(x, SV) and x.sort == "real") or isinstance(x, float) for x in items) else "int"
                terms = [to_z3(x, want) for x in items]
                terms = [z3.ToReal(t) if want == "real" and t.sort() == z3.IntSort() else t for t in terms]
                acc_t = terms[0]
                for t in terms[1:]:
                    acc_t = z3.If(t < acc_t, t, acc_t) if f is builtins.min else z3.If(t > acc_t, t, acc_t)
                yield st, SV(acc_t, want)
                return
        import math as _math

        if f is _math.prod and 1 <= len(args) <= 1 and set(kwargs) <= {"start"} and isinstance(args[0], (list, tuple)):
            items = self.concrete_seq(args[0], st)
            if all(_numeric(x) for x in items) and any(isinstance(x, SV) for x in items) and _numeric(kwargs.get("start", 1)):
                total = kwargs.get("start", 1)
                for x in items:
                    total = self.binop(ast.Mult(), total, x, st)
                yield st, total
                return
        if f is builtins.sum and not kwargs and 1 <= len(args) <= 2 and isinstance(args[0], (list, tuple)):
            items = self.concrete_seq(args[0], st)
            if all(_numeric(x) for x in items) and any(isinstance(x, SV) for x in items) and (len(args) == 1 or _numeric(args[1])):
                total = args[1] if len(args) == 2 else 0
                for x in items:
                    total = self.binop(ast.Add(), total, x, st)
                yield st, total
                return
        if f is builtins.type and len(args) == 1 and not kwargs and isinstance(args[0], Rec) and args[0].real_class is not None:
            yield st, args[0].real_class  # type(record) = the real class the record stands for
            return
        if f is builtins.setattr and len(args) == 3 and isinstance(args[0], Rec) and isinstance(args[1], str):
            args[0].attrs[args[1]] = args[2]  # setattr(record, "name", v)  ==  record.name = v
            yield st, None
            return
        if f is builtins.getattr and len(args) in {2, 3} and isinstance(args[0], Rec) and isinstance(args[1], str):
            o, name = args[0], args[1]
            if len(args) == 3 and name not in o.attrs and not (o.real_class is not None and hasattr(o.real_class, name)):
                yield st, args[2]
                return
            v = self.getattr(o, name, st)
            if isinstance(v, tuple) and len(v) == 3 and v[0] == "__property__":
                for st3, _kind, val in self.call_function(v[1], st, [v[2]], {}):
                    yield st3, val
                return
            yield st, v
            return
        if f in (builtins.tuple, builtins.list) and args and not is_sym(args[0]):
            seq = self.concrete_seq(args[0], st)
            yield st, (tuple(seq) if f is builtins.tuple else list(seq))
            return
        if f in (builtins.set, builtins.frozenset) and len(args) <= 1 and not kwargs and (not args or isinstance(args[0], (list, tuple, set, frozenset))):
            # set(<concrete sequence>): the same concrete set of (hashable wrappers of) the elements as a set comprehension builds
            items = [_hashable(x) for x in (self.concrete_seq(args[0], st) if args and not isinstance(args[0], (set, frozenset)) else (args[0] if args else ()))]
            yield st, (set(items) if f is builtins.set else frozenset(items))
            return
        if f is builtins.dict and len(args) <= 1:
            if not args:
                out = {}
            elif isinstance(args[0], dict):
                out = dict(args[0])
            else:
                out = {_hashable(k): v for k, v in self.concrete_seq(args[0], st)}
            out.update(kwargs)  # dict(mapping, key=value, ...): keyword names are concrete strings
            yield st, out
            return
        if getattr(f, "__name__", "") == "fromkeys" and getattr(f, "__self__", None) is builtins.dict and 1 <= len(args) <= 2 and not kwargs:
            value = args[1] if len(args) == 2 else None
            yield st, {_hashable(k): value for k in self.concrete_seq(args[0], st)}
            return
        if f is builtins.zip:
            seqs = [self.concrete_seq(a, st) for a in args]
            yield st, list(zip(*seqs))
            return
        if f is builtins.reversed and len(args) == 1 and isinstance(args[0], (list, tuple)):
            yield st, GenList(reversed(list(args[0])))
            return
        if f is builtins.next and 1 <= len(args) <= 2 and not kwargs and isinstance(args[0], GenList):
            if args[0]:
                yield st, args[0].pop(0)
            elif len(args) == 2:
                yield st, args[1]
            else:
                yield st, Exc("StopIteration", ())
            return
        if f is builtins.iter and len(args) == 1 and isinstance(args[0], (list, tuple)):
            yield st, GenList(args[0])
            return
        if f is builtins.enumerate:
            yield st, list(enumerate(self.concrete_seq(args[0], st), *args[1:]))
            return
        if f is builtins.bool:
            v = args[0] if args else False
            yield st, (SV(self.as_bool(v), "bool") if is_sym(v) else bool(v))
            return
        if f is builtins.any or f is builtins.all:
            vals = self.concrete_seq(args[0], st)
            if any(is_sym(v) for v in vals):
                bs = [self.as_bool(v) for v in vals]
                yield st, SV(z3.Or(*bs) if f is builtins.any else z3.And(*bs), "bool")
            else:
                yield st, f(vals)
            return
        # typing.NamedTuple / collections.namedtuple classes: the constructor only stores its arguments -> build the real instance (its
        # fields may hold symbolic values; attribute access, indexing and unpacking are the tuple's own)
        if isinstance(f, type) and issubclass(f, tuple) and hasattr(f, "_fields") and f.__new__ is not tuple.__new__:
            try:
                yield st, f(*args, **kwargs)
            except TypeError as e:
                yield st, Exc("TypeError", e.args)
            return
        # logging calls (logger.debug/info/...) have no effect on values: no-ops unless a contract registered a native for them
        import logging as _logging

        if isinstance(getattr(f, "__self__", None), _logging.Logger) and getattr(f, "__name__", "") in {"debug", "info", "warning", "error", "critical", "exception", "log"}:
            yield st, None
            return
        # "template".format(a, b) with symbolic arguments and auto-numbered fields is the f-string with the same template
        if getattr(f, "__name__", "") == "format" and isinstance(getattr(f, "__self__", None), str) and not kwargs:
            import string as _string

            tmpl = f.__self__
            try:
                fields = list(_string.Formatter().parse(tmpl))
            except ValueError:
                fields = None
            if fields is not None and all(name in (None, "") and conv is None for _, name, _, conv in fields):
                text = ""
                n_holes = 0
                for lit, name, spec, _ in fields:
                    text += lit.replace("{", "{{").replace("}", "}}")
                    if name is not None:
                        text += "{" + (":" + spec if spec else "") + "}"
                        n_holes += 1
                if n_holes == len(args):
                    fn_ = self.func("fmt:" + text, *(["obj"] * len(args)), "obj")
                    yield st, SV(fn_(*[self.as_obj(a) for a in args]), "obj")
                    return
        # a plain function of the package under verification that is neither a native nor explicitly inlined (typically a private
        # helper a refactoring extracted): interpret its body; only if that leaves the supported subset fall back to the abstraction
        import types as _types

        if isinstance(target, _types.FunctionType) and (getattr(target, "__module__", "") or "").startswith(self.auto_inline_prefixes) and self._inline_depth < 6:
            # interpreted on the caller's own state (no trial run: natives may have side effects such as call counters). If the body
            # leaves the supported subset, so does the caller: Unsupported propagates (-> 'outside the subset', undecided). Functions a
            # contract wants to keep as uninterpreted assumptions are listed in `keep_abstract`.
            if getattr(target, "__qualname__", "") not in self.keep_abstract and getattr(target, "__name__", "") not in self.keep_abstract:
                self.auto_inlined.add(getattr(target, "__qualname__", "?"))
                self._inline_depth += 1
                try:
                    for st2, kind, val in self.call_function(target, st, args, kwargs):
                        yield st2, val
                finally:
                    self._inline_depth -= 1
                return
            self.abstracted_calls.add(getattr(target, "__qualname__", "?"))
            ABSTRACTED_PACKAGE_CALLS.add(getattr(target, "__qualname__", "?"))
        # an in-place method of a concrete container (list/dict/set) with symbolic arguments has an EFFECT: abstracting it as a pure
        # function would silently drop the mutation. Not modelled -> outside the subset.
        owner = getattr(f, "__self__", None)
        mname = getattr(f, "__name__", "")

        if isinstance(owner, (list, set)) and not kwargs:
            # exact models of the common in-place methods on CONCRETE containers whose new elements are symbolic (identity-keyed
            # wrappers in sets, as a set comprehension builds them)
            if isinstance(owner, list) and mname == "append" and len(args) == 1:
                owner.append(args[0])
                yield st, None
                return
            if isinstance(owner, list) and mname == "extend" and len(args) == 1 and isinstance(args[0], (list, tuple)):
                owner.extend(args[0])
                yield st, None
                return
            if isinstance(owner, list) and mname == "insert" and len(args) == 2 and isinstance(args[0], int) and not isinstance(args[0], bool):
                owner.insert(args[0], args[1])
                yield st, None
                return
            if isinstance(owner, set) and mname == "add" and len(args) == 1:
                owner.add(_hashable(args[0]))
                yield st, None
                return
            if isinstance(owner, set) and mname == "update" and all(isinstance(a, (list, tuple, set, frozenset, dict)) for a in args):
                for a in args:
                    for x in self.concrete_seq(a, st):
                        owner.add(_hashable(_unhash(x)))
                yield st, None
                return
        if isinstance(owner, (list, dict, set, bytearray)) and mname in {
                "update", "add", "append", "extend", "insert", "remove", "discard", "pop", "popitem", "clear", "setdefault", "sort", "reverse",
                "difference_update", "intersection_update", "symmetric_difference_update", "__setitem__", "__delitem__", "__ior__", "__iand__", "__isub__"}:
            raise Unsupported(f"in-place {type(owner).__name__}.{f.__name__} with symbolic arguments")
        # uninterpreted function of its arguments (A-pure)
        nm = src_name or getattr(f, "__qualname__", None) or (str(f.t) if isinstance(f, SV) else "fn")
        arg_terms = [self.as_obj(a) for a in args] + [self.as_obj(v) for _, v in sorted(kwargs.items())]
        if isinstance(f, SV):
            arg_terms = [f.t] + arg_terms
            nm = "apply"
        uf = self.func(f"call_{nm}_{len(arg_terms)}" + "".join(f"_{k}" for k in sorted(kwargs)), *(["obj"] * len(arg_terms)), "obj")
        yield st, SV(uf(*arg_terms) if arg_terms else z3.Const(f"call_{nm}_0", Obj), "obj")


def render_fstring(n: ast.JoinedStr, vals: list) -> str:
    """The string an f-string evaluates to when every hole has a concrete value (conversions and constant format specs applied)."""
    out, i = "", 0
    for v in n.values:
        if isinstance(v, ast.Constant):
            out += str(v.value)
            continue
        x = vals[i]
        i += 1
        if v.conversion == 114:
            x = repr(x)
        elif v.conversion == 115:
            x = str(x)
        elif v.conversion == 97:
            x = ascii(x)
        spec = ""
        if v.format_spec is not None:
            if not all(isinstance(c, ast.Constant) for c in v.format_spec.values):
                raise Unsupported("f-string with a computed format spec")
            spec = "".join(str(c.value) for c in v.format_spec.values)
        out += format(x, spec)
    return out


def fold_template(n: ast.JoinedStr, vals: list) -> tuple[str, list]:
    """Template text of an f-string with the holes whose value is a CONCRETE str/int (no format spec, no conversion) folded into the
    literal text: f"{h}{SUFFIX}" with SUFFIX = ".pkl" is the same string as f"{h}.pkl" and gets the same template."""
    text, rest, i = "", [], 0
    for v in n.values:
        if isinstance(v, ast.Constant):
            text += str(v.value).replace("{", "{{").replace("}", "}}")
            continue
        x = vals[i]
        i += 1
        if v.format_spec is None and v.conversion == -1 and type(x) in {str, int}:
            text += format(x).replace("{", "{{").replace("}", "}}")
            continue
        spec = ""
        if v.format_spec is not None:
            spec = ":" + "".join(str(c.value) for c in v.format_spec.values if isinstance(c, ast.Constant))
        text += "{" + spec + "}"
        rest.append(x)
    return text, rest


def _may_share_instances(a: type, b: type) -> bool:
    """Can one object be an instance of both classes? (neither is a subclass of the other)"""
    try:
        type("_probe", (a, b), {})
    except TypeError:
        return False  # layout / metaclass conflict: no common subclass exists
    return True


def _smap_get(ex, st, args, kwargs):
    o, k = args[0], ex.as_obj(args[1])
    m = o.attrs["__map__"]
    default = ex.as_obj(args[2] if len(args) > 2 else kwargs.get("default"))
    yield st, SV(z3.If(z3.Select(m.has, k), z3.Select(m.val, k), default), "obj")


def _smap_setdefault(ex, st, args, kwargs):
    o, k = args[0], ex.as_obj(args[1])
    m = o.attrs["__map__"]
    default = ex.as_obj(args[2] if len(args) > 2 else kwargs.get("default"))
    new_val = z3.If(z3.Select(m.has, k), z3.Select(m.val, k), default)
    o.attrs["__map__"] = SMap(z3.Store(m.has, k, True), z3.Store(m.val, k, new_val))
    yield st, SV(new_val, "obj")


def _smap_update(ex, st, args, kwargs):
    o = args[0]
    src = args[1] if len(args) > 1 else {}
    if not isinstance(src, dict):
        raise Unsupported("update of a symbolic map with something that is not a concrete dict")
    m = o.attrs["__map__"]
    has, val = m.has, m.val
    for k, v in {**src, **kwargs}.items():
        kk = ex.as_obj(k.v if hasattr(k, "v") and type(k).__name__ == "_HK" else k)
        has, val = z3.Store(has, kk, True), z3.Store(val, kk, ex.as_obj(v))
    o.attrs["__map__"] = SMap(has, val)
    yield st, None


_SMAP_METHODS = {"get": _smap_get, "setdefault": _smap_setdefault, "update": _smap_update}
def _is_generator(fn_node) -> bool:
    """Does the function's own body (nested defs / lambdas excluded) contain a yield?"""
    stack = list(fn_node.body)
    while stack:
        nd = stack.pop()
        if isinstance(nd, (ast.Yield, ast.YieldFrom)):
            return True
        if isinstance(nd, (ast.FunctionDef, ast.AsyncFunctionDef, ast.Lambda, ast.ClassDef)):
            continue
        stack.extend(ast.iter_child_nodes(nd))
    return False


ABSTRACTED_PACKAGE_CALLS: set[str] = set()  # process-wide: package functions some executor had to abstract (read by vlib/core.py)


def _has_sym(v, depth=0) -> bool:
    if is_sym(v) or isinstance(v, (Rec, Closure, Bound, _HK)):
        return True
    if isinstance(v, (type({}.keys()), type({}.items()), type({}.values()))):
        return any(_has_sym(x, depth + 1) for x in v)
    if depth > 4:
        return False
    if isinstance(v, (list, tuple, set, frozenset)):
        return any(_has_sym(x, depth + 1) for x in v)
    if isinstance(v, dict):
        return any(_has_sym(x, depth + 1) for x in v.values()) or any(_has_sym(_unhash(k), depth + 1) for k in v)
    return False


class _HK:
    """Hashable wrapper for symbolic/record dictionary keys (identity-keyed)."""

    __slots__ = ("v",)

    def __init__(self, v):
        self.v = v

    def __hash__(self):
        return id(self.v)

    def __eq__(self, o):
        return isinstance(o, _HK) and o.v is self.v


def _hashable(k):
    if isinstance(k, (SV, Rec, SList, list, dict)):
        return _HK(k)
    return k


def _unhash(k):
    return k.v if isinstance(k, _HK) else k


_SERIALS: dict[int, tuple[Any, int]] = {}


def _serial(v) -> int:
    """A number for an object that is named by identity. The object is kept alive: a recycled id() of a dead object would give two
    different objects the same constant."""
    hit = _SERIALS.get(id(v))
    if hit is None or hit[0] is not v:
        hit = (v, len(_SERIALS) + 1)
        _SERIALS[id(v)] = hit
    return hit[1]


def _const_name(v) -> str:
    if v is None or isinstance(v, (bool, int, str, float, Fraction)):
        return f"{type(v).__name__}:{v!r}"
    if isinstance(v, type):
        return f"class:{v.__module__}.{v.__qualname__}"
    if isinstance(v, Rec):
        return f"rec:{v.cls_name}@{_serial(v)}"
    q = getattr(v, "__qualname__", None)
    if q:
        return f"fn:{getattr(v, '__module__', '')}.{q}"
    return f"{type(v).__name__}@{_serial(v)}"


def _dotted(n) -> str:
    if isinstance(n, ast.Name):
        return n.id
    if isinstance(n, ast.Attribute):
        b = _dotted(n.value)
        return f"{b}.{n.attr}" if b else ""
    return ""


def _index(t: ast.Subscript):
    return t.slice


def _as_load(t):
    t2 = ast.parse(ast.unparse(t), mode="eval").body
    return t2


def _assigned_names(body) -> list[str]:
    out = []
    for node in body:
        for n in ast.walk(node):
            if isinstance(n, (ast.Assign, ast.AugAssign, ast.AnnAssign)):
                for t in n.targets if isinstance(n, ast.Assign) else [n.target]:
                    for x in ast.walk(t):
                        if isinstance(x, ast.Name) and x.id not in out:
                            out.append(x.id)
            elif isinstance(n, ast.For):
                for x in ast.walk(n.target):
                    if isinstance(x, ast.Name) and x.id not in out:
                        out.append(x.id)
    return out


def _appended_names(body) -> list[str]:
    out = []
    for node in body:
        for n in ast.walk(node):
            if isinstance(n, ast.Call) and isinstance(n.func, ast.Attribute) and n.func.attr in {"append", "extend", "remove", "pop", "insert"}:
                if isinstance(n.func.value, ast.Name) and n.func.value.id not in out:
                    out.append(n.func.value.id)
    return out
