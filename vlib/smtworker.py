"""Stand-alone z3 worker: `python -m vlib.smtworker <file.smt2> <tactic>` -> one JSON line.

Runs in its own process so that the parent can kill it at the deadline.
"""

from __future__ import annotations

import json
import sys
import time
from fractions import Fraction

import z3


def _val(v):
    if z3.is_true(v):
        return True
    if z3.is_false(v):
        return False
    if z3.is_int_value(v):
        return v.as_long()
    if z3.is_rational_value(v):
        f = Fraction(v.numerator_as_long(), v.denominator_as_long())
        return {"q": [str(f.numerator), str(f.denominator)]}
    if z3.is_algebraic_value(v):
        return {"f": v.approx(40).as_decimal(30).rstrip("?")}
    return {"s": str(v)}


def main() -> None:
    path, tactic = sys.argv[1], sys.argv[2]
    t0 = time.time()
    try:
        fml = z3.parse_smt2_file(path)
        if tactic == "default":
            s = z3.Solver()
        elif tactic == "nlsat":
            s = z3.Tactic("qfnra-nlsat").solver()
        elif tactic == "nra":
            s = z3.Then("simplify", "purify-arith", "solve-eqs", "qfnra-nlsat").solver()
        else:
            s = z3.SolverFor(tactic)
        s.add(fml)
        r = s.check()
        model = {}
        if r == z3.sat:
            m = s.model()
            for d in m.decls():
                if d.arity() == 0:
                    model[d.name()] = _val(m[d])
        print(json.dumps({"status": str(r), "model": model, "seconds": time.time() - t0,
                          "detail": s.reason_unknown() if r == z3.unknown else ""}))
    except Exception as e:  # noqa: BLE001
        print(json.dumps({"status": "error", "model": {}, "seconds": time.time() - t0,
                          "detail": f"{type(e).__name__}: {e}"}))


if __name__ == "__main__":
    main()
