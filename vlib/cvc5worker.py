"""Stand-alone cvc5 (1.4 wheel) worker: `python -m vlib.cvc5worker <file.smt2> <mode>` -> one JSON line.
mode: "cov" (nl-cov: complete for QF_NRA) or "ext" (incremental linearisation)."""

from __future__ import annotations

import json
import sys
import time

import cvc5


def main() -> None:
    path, mode = sys.argv[1], sys.argv[2]
    t0 = time.time()
    try:
        s = cvc5.Solver()
        s.setOption("produce-models", "true")
        if mode == "cov":
            s.setOption("nl-cov", "true")
        p = cvc5.InputParser(s)
        p.setFileInput(cvc5.InputLanguage.SMT_LIB_2_6, path)
        sm = p.getSymbolManager()
        status = "unknown"
        while True:
            cmd = p.nextCommand()
            if cmd.isNull():
                break
            out = str(cmd.invoke(s, sm)).strip()
            if out in {"sat", "unsat", "unknown"}:
                status = out
        model = {}
        if status == "sat":
            try:
                for t in sm.getDeclaredTerms():
                    v = s.getValue(t)
                    name = str(t)
                    if v.isRealValue() or v.isIntegerValue():
                        fr = v.getRealValue()
                        model[name] = {"q": [str(fr.numerator), str(fr.denominator)]}
                    elif v.isBooleanValue():
                        model[name] = v.getBooleanValue()
                    else:
                        model[name] = {"s": str(v)}
            except Exception as e:  # noqa: BLE001
                model = {}
        print(json.dumps({"status": status, "model": model, "seconds": time.time() - t0, "detail": ""}))
    except Exception as e:  # noqa: BLE001
        print(json.dumps({"status": "error", "model": {}, "seconds": time.time() - t0, "detail": f"{type(e).__name__}: {e}"}))


if __name__ == "__main__":
    main()
