"""E5: the reaction zoo — real qrules reactions (generated offline from qrules' bundled particle table, cached as
pickles under /verif/.cache which is rebuilt when absent) and configuration helpers. Reactions are inputs of the
*dependency* qrules; everything ampform does with them is recomputed from $VERIF_REPO on every run."""

from __future__ import annotations

import os
import pickle
import time
import warnings

ROOT = os.path.dirname(os.path.dirname(os.path.abspath(__file__)))
CACHE = os.path.join(ROOT, ".cache", "zoo")

# name -> kwargs of qrules.generate_transitions (formalism added by the caller)
REACTIONS = {
    # the photon is a daughter of a resonance (axis-angle alignment computes a Wigner rotation for it); two symmetrised topologies
    "jpsi_gamma_pi0_pi0_omega": dict(initial_state=("J/psi(1S)", [+1]), final_state=["gamma", "pi0", "pi0"], allowed_intermediate_particles=["omega(782)"],
                                     allowed_interaction_types=["strong", "EM"]),
    # two IDENTICAL spin-1 siblings that both decay: (lambda1, lambda2) and (lambda2, lambda1) at the production node are different chains
    "chic1_phi_phi": dict(initial_state="chi(c1)(1P)", final_state=["K+", "K-", "K0", "K~0"], allowed_intermediate_particles=["phi(1020)"],
                          allowed_interaction_types=["strong"]),
    # the SAME resonance twice with the SAME daughters, daughter helicities +-1 (photon): both nodes of one chain can carry the same
    # coefficient suffix and both can be parity-flipped (eta(omega -> gamma pi0) = -1), the product of two prefactors is +1
    "chic0_omega_omega": dict(initial_state="chi(c0)(1P)", final_state=["gamma", "pi0", "gamma", "pi0"], allowed_intermediate_particles=["omega(782)"],
                              allowed_interaction_types=["strong", "EM"]),
    # two identical spin-1 particles leaving the SAME node, with equal and with different projections (J = 2: lambda = 0, +-2)
    "chic2_gamma_gamma": dict(initial_state="chi(c2)(1P)", final_state=["gamma", "gamma"], allowed_interaction_types=["EM"]),
    # two identical spin-1 particles from DIFFERENT nodes and no other identical pair: transitions whose photons have different
    # projections have pairwise distinct final STATES, yet must be symmetrised (identity of particles is by name, not by projection)
    "psi2s_gamma_gamma_jpsi": dict(initial_state=("psi(2S)", [+1]), final_state=["gamma", "gamma", "J/psi(1S)"], allowed_intermediate_particles=["chi(c1)(1P)"],
                                   allowed_interaction_types=["EM"]),
    # a massless spin-1/2 state next to a massive spin-1 state (axis-angle alignment: the flag `no_zero_spin` must follow the ROTATED state)
    "tau_nu_rho": dict(initial_state="tau-", final_state=["nu(tau)", "rho(770)-"], allowed_interaction_types=["weak"]),
    "tau_nu_rho0_pi": dict(initial_state="tau-", final_state=["nu(tau)", "rho(770)0", "pi-"], allowed_intermediate_particles=["a(1)(1260)-"],
                           allowed_interaction_types=["weak", "strong"]),
    "jpsi_gamma_pi0_pi0": dict(initial_state=("J/psi(1S)", [-1, +1]), final_state=["gamma", "pi0", "pi0"],
                               allowed_intermediate_particles=["f(0)(980)", "f(0)(1500)"], allowed_interaction_types=["strong", "EM"]),
    "jpsi_pi0_pip_pim": dict(initial_state=("J/psi(1S)", [-1, +1]), final_state=["pi0", "pi+", "pi-"],
                             allowed_intermediate_particles=["rho(770)"], allowed_interaction_types=["strong", "EM"]),
    "etac_lambda_lambdabar": dict(initial_state="eta(c)(1S)", final_state=["Lambda", "Lambda~"], allowed_interaction_types=["strong", "EM"]),
    "jpsi_p_pbar": dict(initial_state=("J/psi(1S)", [-1, +1]), final_state=["p", "p~"], allowed_interaction_types=["strong", "EM"]),
    "lambdac_p_k_pi": dict(initial_state="Lambda(c)+", final_state=["p", "K-", "pi+"],
                           allowed_intermediate_particles=["Lambda(1520)", "Delta(1232)++", "K*(892)0"], mass_conservation_factor=0.6),
    "d1_k_k_k0": dict(initial_state="D(1)(2420)0", final_state=["K+", "K-", "K~0"], allowed_intermediate_particles=["a(1)(1260)+"],
                      allowed_interaction_types=["strong", "EM", "weak"]),
    "jpsi_sigmabar_sigma": dict(initial_state=("J/psi(1S)", [+1]), final_state=["K0", "Sigma+", "p~"],
                                allowed_intermediate_particles=["Sigma(1750)"], allowed_interaction_types=["strong"]),
    "jpsi_k0_sigma_pbar_N": dict(initial_state=("J/psi(1S)", [+1]), final_state=["K0", "Sigma+", "p~"],
                                 allowed_intermediate_particles=["Sigma(1750)", "N(1700)+"], allowed_interaction_types=["strong"]),
    # higher spin, spin-0 parent with several topologies, four-body two-resonance and cascade topologies (identical pions)
    "jpsi_gamma_pi0_pi0_f2": dict(initial_state=("J/psi(1S)", [-1, +1]), final_state=["gamma", "pi0", "pi0"], allowed_intermediate_particles=["f(2)(1270)"],
                                  allowed_interaction_types=["strong", "EM"]),
    "d0_k_pi_pi0": dict(initial_state="D0", final_state=["K-", "pi+", "pi0"], allowed_intermediate_particles=["K*(892)", "rho(770)+"],
                        allowed_interaction_types=["weak", "strong"]),
    "jpsi_kk_pipi": dict(initial_state=("J/psi(1S)", [-1, +1]), final_state=["K+", "K-", "pi+", "pi-"], allowed_intermediate_particles=["phi(1020)", "f(0)(980)"],
                         allowed_interaction_types=["strong"]),
    "d0_k_3pi_cascade": dict(initial_state="D0", final_state=["K-", "pi+", "pi+", "pi-"], allowed_intermediate_particles=["a(1)(1260)+", "rho(770)0"],
                             allowed_interaction_types=["weak", "strong"]),
    # two parity-conserving nodes that both have eta = -1 (eta_c) interfering with other resonances
    "jpsi_gamma_p_pbar": dict(initial_state=("J/psi(1S)", [-1, +1]), final_state=["gamma", "p", "p~"],
                              allowed_intermediate_particles=["eta(c)(1S)", "f(0)(2020)", "f(2)(2010)"], allowed_interaction_types=["strong", "EM"]),
    # partial helicity sets of initial AND final states
    "jpsi_k0_sigma_pbar_partial": dict(initial_state=("J/psi(1S)", [-1, +1]), final_state=["K0", "Sigma+", ("p~", [+0.5])],
                                       allowed_intermediate_particles=["Sigma(1660)", "N(1650)"], allowed_interaction_types=["strong"]),
    # single-topology reactions with complete helicity sets (C05)
    "jpsi_full_sigmabar_sigma": dict(initial_state=("J/psi(1S)", [-1, 0, +1]), final_state=["K0", "Sigma+", "p~"],
                                     allowed_intermediate_particles=["Sigma(1750)"], allowed_interaction_types=["strong"]),
    "jpsi_full_gamma_pi0_pi0": dict(initial_state=("J/psi(1S)", [-1, 0, +1]), final_state=["gamma", "pi0", "pi0"],
                                    allowed_intermediate_particles=["f(0)(980)"], allowed_interaction_types=["strong", "EM"]),
    "jpsi_full_p_pbar": dict(initial_state=("J/psi(1S)", [-1, 0, +1]), final_state=["p", "p~"], allowed_interaction_types=["strong", "EM"]),
    "lambdac_p_k_pi_L1520": dict(initial_state="Lambda(c)+", final_state=["p", "K-", "pi+"], allowed_intermediate_particles=["Lambda(1520)"],
                                 mass_conservation_factor=0.6),
    "lambdac_p_k_pi_Kstar": dict(initial_state="Lambda(c)+", final_state=["p", "K-", "pi+"], allowed_intermediate_particles=["K*(892)0"],
                                 mass_conservation_factor=0.6),
    "lambdac_p_k_pi_Delta": dict(initial_state="Lambda(c)+", final_state=["p", "K-", "pi+"], allowed_intermediate_particles=["Delta(1232)++"],
                                 mass_conservation_factor=0.6),
}


def _twin(r):
    """The reaction plus a copy of every transition in which each intermediate particle is a renamed twin (same quantum numbers, mass and
    width; other name and LaTeX). qrules' Particle ignores names in ==/hash: twin transitions compare EQUAL to the originals."""
    import attrs
    import qrules

    out = list(r.transitions)
    for t in r.transitions:
        inter = set(t.topology.intermediate_edge_ids)
        states = {i: (attrs.evolve(st, particle=attrs.evolve(st.particle, name=st.particle.name + "-twin", latex=(st.particle.latex or st.particle.name) + "^{\\prime}")) if i in inter else st)
                  for i, st in t.states.items()}
        out.append(attrs.evolve(t, states=states))
    return qrules.transition.ReactionInfo(out, formalism=r.formalism)


DERIVED = {"jpsi_gamma_pi0_pi0_twin": ("jpsi_gamma_pi0_pi0", _twin)}
REACTIONS["jpsi_gamma_pi0_pi0_twin"] = dict(REACTIONS["jpsi_gamma_pi0_pi0"])


def reaction(name: str, formalism: str = "helicity"):
    """qrules ReactionInfo, from the cache or generated (2-20 s) offline."""
    if name in DERIVED:
        base, fn = DERIVED[name]
        return fn(reaction(base, formalism))
    os.makedirs(CACHE, exist_ok=True)
    path = os.path.join(CACHE, f"{name}.{formalism}.pkl")
    if os.path.exists(path):
        try:
            with open(path, "rb") as f:
                return pickle.load(f)
        except Exception:  # noqa: BLE001
            os.unlink(path)
    import qrules

    warnings.filterwarnings("ignore")
    kw = dict(REACTIONS[name])
    r = qrules.generate_transitions(formalism=formalism, **kw)
    tmp = path + f".{os.getpid()}.tmp"
    with open(tmp, "wb") as f:
        pickle.dump(r, f)
    os.replace(tmp, path)
    return r


if __name__ == "__main__":
    import sys

    for nm in REACTIONS:
        for fm in ("helicity", "canonical-helicity"):
            t0 = time.time()
            try:
                r = reaction(nm, fm)
                tops = {t.topology for t in r.transitions}
                print(f"{nm:28s} {fm:20s} {len(r.transitions):4d} transitions {len(tops)} topologies  {time.time() - t0:.1f}s")
            except Exception as e:  # noqa: BLE001
                print(f"{nm:28s} {fm:20s} FAILED {type(e).__name__}: {e}")
