"""E2 `npvc`: verification conditions over the numpy source that sympy.lambdify generates.

`lambdify` is called for real on the real expression; the *source text* of the generated function is
parsed with `ast` and given a per-event denotation in the value language of vlib/tr.py for the subset
ampform's printers emit. Anything outside the subset raises NpvcUnsupported (-> undecided); a name that
the generated code uses but neither binds nor imports is reported as the obligation failure
`names_bound` (this is what str()-formatted printer arguments cause).
"""

from __future__ import annotations

import ast
import inspect
from typing import Any

import sympy as sp
import z3
from sympy.tensor.array.expressions.array_expressions import ArraySymbol

from .tr import CI, CONE, CZERO, Ang, Cx, Tr, TrError, eq_all, flatten, is_mat, is_vec, matmul, matvec

KNOWN_FUNCS = {
    "sqrt", "sum", "array", "einsum", "zeros", "ones", "len", "select", "greater", "less", "greater_equal",
    "less_equal", "equal", "not_equal", "cos", "sin", "exp", "arccos", "arctan2", "abs", "conjugate", "real", "imag",
    "logical_and", "logical_or", "logical_not", "log", "arctan", "amax", "amin", "sign", "power",
}
KNOWN_CONSTS = {"nan", "pi", "True", "False", "inf"}


class NpvcUnsupported(Exception):
    pass


class UnboundName(Exception):
    pass


def lambdify_source(args, expr, cse: bool) -> tuple[Any, str]:
    f = sp.lambdify(args, expr, "numpy", cse=cse)
    return f, inspect.getsource(f)


def ordered_args(expr) -> list[Any]:
    arrs = sorted(expr.atoms(ArraySymbol), key=str)
    names = {str(a.name) for a in arrs}
    return [s for s in sorted(expr.free_symbols, key=str) if s.name not in names] + arrs


def free_names(src: str) -> set[str]:
    """Names loaded in the generated function that are neither parameters nor assigned before."""
    fn = ast.parse(src).body[0]
    bound = {a.arg for a in fn.args.args}
    free: set[str] = set()
    for stmt in fn.body:
        for node in ast.walk(stmt.value if isinstance(stmt, (ast.Assign, ast.Return)) else stmt):
            if isinstance(node, ast.Name) and isinstance(node.ctx, ast.Load) and node.id not in bound:
                free.add(node.id)
        if isinstance(stmt, ast.Assign):
            for t in stmt.targets:
                for n in ast.walk(t):
                    if isinstance(n, ast.Name):
                        bound.add(n.id)
    return free


class Interp:
    """Per-event denotation of generated numpy code."""

    def __init__(self, tr: Tr, args: list[Any]):
        self.tr = tr
        self.env: dict[str, Any] = {}
        self.angles: dict[str, Any] = {}
        self.sym_env: dict[str, Any] = {}  # cse temporaries that are rational-linear combinations of scalar symbols (angle expressions)
        for a in args:
            nm = str(a.name) if isinstance(a, ArraySymbol) else a.name
            if isinstance(a, ArraySymbol):
                self.env[nm] = tr.val(a)
            else:
                self.env[nm] = ("symbol", a)

    def run(self, src: str) -> Any:
        fn = ast.parse(src).body[0]
        for stmt in fn.body:
            if isinstance(stmt, ast.Assign):
                if len(stmt.targets) != 1 or not isinstance(stmt.targets[0], ast.Name):
                    raise NpvcUnsupported("assignment target")
                sym = self.to_sympy(stmt.value)
                if sym is not None:
                    self.sym_env[stmt.targets[0].id] = sym
                self.env[stmt.targets[0].id] = self.ev(stmt.value)
            elif isinstance(stmt, ast.Return):
                return self.num(self.ev(stmt.value))
            elif isinstance(stmt, ast.Expr) and isinstance(stmt.value, ast.Constant):
                continue
            else:
                raise NpvcUnsupported(f"statement {type(stmt).__name__}")
        raise NpvcUnsupported("no return")

    # values: Cx | list | ("symbol", sym) | ("len",) | Ang | z3 Bool | ("nan",)
    def num(self, v):
        if isinstance(v, tuple) and v and v[0] == "symbol":
            return self.tr.val(v[1])
        return v

    def ev(self, n) -> Any:
        tr = self.tr
        if isinstance(n, ast.Constant):
            if isinstance(n.value, bool):
                return z3.BoolVal(n.value)
            if isinstance(n.value, complex):
                return Cx(0, sp.Rational(str(n.value.imag)))
            if isinstance(n.value, (int, float)):
                return Cx(sp.Rational(str(n.value)) if isinstance(n.value, float) else n.value)
            raise NpvcUnsupported(f"constant {n.value!r}")
        if isinstance(n, ast.Name):
            if n.id in self.env:
                return self.env[n.id]
            if n.id == "nan":
                return ("nan",)
            if n.id == "pi":
                raise NpvcUnsupported("pi as a number")
            raise UnboundName(n.id)
        if isinstance(n, ast.UnaryOp):
            v = self.num(self.ev(n.operand))
            if isinstance(n.op, ast.USub):
                return _tmap(v, lambda c: -c)
            if isinstance(n.op, ast.UAdd):
                return v
            raise NpvcUnsupported("unary op")
        if isinstance(n, ast.BinOp):
            if isinstance(n.op, ast.Pow):
                base = self.num(self.ev(n.left))
                ex = n.right
                sign = 1
                if isinstance(ex, ast.UnaryOp) and isinstance(ex.op, ast.USub):
                    ex, sign = ex.operand, -1
                if isinstance(ex, ast.Constant) and isinstance(ex.value, int):
                    e = sp.Integer(sign * ex.value)
                elif isinstance(ex, ast.BinOp) and isinstance(ex.op, ast.Div) and all(isinstance(k, ast.Constant) for k in (ex.left, ex.right)):
                    e = sp.Rational(sign * ex.left.value, ex.right.value)
                elif isinstance(ex, ast.Constant) and isinstance(ex.value, float):
                    e = sp.Rational(str(sign * ex.value))
                else:
                    raise NpvcUnsupported("non-constant exponent")
                return _tmap(base, lambda c: tr.power(c, e, "(generated code)"))
            a, b = self.num(self.ev(n.left)), self.num(self.ev(n.right))
            if isinstance(n.op, ast.Add):
                return _tzip(a, b, lambda x, y: x + y)
            if isinstance(n.op, ast.Sub):
                return _tzip(a, b, lambda x, y: x - y)
            if isinstance(n.op, ast.Mult):
                return _tzip(a, b, lambda x, y: x * y)
            if isinstance(n.op, ast.Div):
                return _tzip(a, b, lambda x, y: x * tr.inv(y, "(generated code)"))
            raise NpvcUnsupported("binary op")
        if isinstance(n, ast.Subscript):
            v = self.num(self.ev(n.value))
            sl = n.slice
            if not (isinstance(sl, ast.Tuple) and len(sl.elts) == 2 and _full_slice(sl.elts[0])):
                raise NpvcUnsupported("subscript that is not [:, k]")
            k = sl.elts[1]
            if isinstance(k, ast.Constant) and isinstance(k.value, int):
                return v[k.value]
            if isinstance(k, ast.Slice):
                lo = k.lower.value if k.lower is not None else 0
                hi = k.upper.value if k.upper is not None else len(v)
                if k.step is not None:
                    raise NpvcUnsupported("slice step")
                return v[lo:hi]
            raise NpvcUnsupported("subscript index")
        if isinstance(n, ast.List):
            return [self.ev(e) for e in n.elts]
        if isinstance(n, ast.Tuple):
            return tuple(self.ev(e) for e in n.elts)
        if isinstance(n, ast.Call):
            return self.call(n)
        raise NpvcUnsupported(f"node {type(n).__name__}")

    def to_sympy(self, n):
        """SymPy expression of a node built from scalar symbols, integer/rational constants, + - * /  (else None)."""
        if isinstance(n, ast.Name):
            if n.id in self.sym_env:
                return self.sym_env[n.id]
            v = self.env.get(n.id)
            if isinstance(v, tuple) and v and v[0] == "symbol":
                return v[1]
            return None
        if isinstance(n, ast.Constant) and isinstance(n.value, (int, float)) and not isinstance(n.value, bool):
            return sp.Rational(str(n.value)) if isinstance(n.value, float) else sp.Integer(n.value)
        if isinstance(n, ast.UnaryOp) and isinstance(n.op, ast.USub):
            v = self.to_sympy(n.operand)
            return None if v is None else -v
        if isinstance(n, ast.BinOp) and isinstance(n.op, (ast.Add, ast.Sub, ast.Mult, ast.Div)):
            a, b = self.to_sympy(n.left), self.to_sympy(n.right)
            if a is None or b is None:
                return None
            if isinstance(n.op, ast.Add):
                return a + b
            if isinstance(n.op, ast.Sub):
                return a - b
            if isinstance(n.op, ast.Mult):
                return a * b if (a.is_number or b.is_number) else None
            return a / b if b.is_number else None
        return None

    def angle_of(self, n) -> Ang:
        """The argument of cos/sin/exp(1j*..) as an angle."""
        tr = self.tr
        sym = self.to_sympy(n)
        if sym is not None and not sym.is_number:
            return tr.angle(sym)
        if isinstance(n, ast.Name) and n.id in self.env:
            v = self.env[n.id]
            if isinstance(v, tuple) and v[0] == "symbol":
                return tr.angle(v[1])
            if isinstance(v, Ang):
                return v
        if isinstance(n, ast.UnaryOp) and isinstance(n.op, ast.USub):
            return -self.angle_of(n.operand)
        if isinstance(n, ast.BinOp) and isinstance(n.op, ast.Add):
            return self.angle_of(n.left) + self.angle_of(n.right)
        if isinstance(n, ast.BinOp) and isinstance(n.op, ast.Sub):
            return self.angle_of(n.left) + (-self.angle_of(n.right))
        if isinstance(n, ast.BinOp) and isinstance(n.op, ast.Mult):
            for k, other in ((n.left, n.right), (n.right, n.left)):
                if isinstance(k, ast.Constant) and isinstance(k.value, int):
                    return self.angle_of(other).times(k.value)
        if isinstance(n, ast.Call):
            v = self.ev(n)
            if isinstance(v, Ang):
                return v
        raise NpvcUnsupported(f"angle expression {ast.dump(n)[:80]}")

    def call(self, n: ast.Call) -> Any:
        tr = self.tr
        f = n.func
        # array([...]).transpose((2, 0, 1))
        if isinstance(f, ast.Attribute) and f.attr == "transpose":
            inner = f.value
            if not (isinstance(inner, ast.Call) and isinstance(inner.func, ast.Name) and inner.func.id == "array"):
                raise NpvcUnsupported("transpose of a non-literal")
            perm = ast.literal_eval(n.args[0])
            if tuple(perm) != (2, 0, 1):
                raise NpvcUnsupported(f"transpose{perm}")
            rows = self.ev(inner.args[0])
            return [[self.num(c) for c in row] for row in rows]
        if not isinstance(f, ast.Name):
            raise NpvcUnsupported("call of non-name")
        name = f.id
        if name not in KNOWN_FUNCS:
            raise UnboundName(name)
        if name == "sqrt":
            v = self.num(self.ev(n.args[0]))
            return _tmap(v, lambda c: tr.sqrt(c, "(generated code)"))
        if name == "sum":
            v = self.num(self.ev(n.args[0]))
            axis = [k.value for k in n.keywords if k.arg == "axis"]
            if not axis or not isinstance(axis[0], ast.Constant) or axis[0].value != 1 or not is_vec(v):
                raise NpvcUnsupported("sum without axis=1 over a vector")
            out = CZERO
            for c in v:
                out = out + c
            return out
        if name in {"zeros", "ones"}:
            arg = self.ev(n.args[0])
            if not (isinstance(arg, tuple) and arg and arg[0] == "len"):
                raise NpvcUnsupported(f"{name} of a non-length")
            return CZERO if name == "zeros" else CONE
        if name == "len":
            v = self.ev(n.args[0])
            if not is_vec(v):
                raise NpvcUnsupported("len of a non-array")
            return ("len",)
        if name == "einsum":
            subs = ast.literal_eval(n.args[0])
            tensors = [self.num(self.ev(a)) for a in n.args[1:]]
            return einsum(subs, tensors)
        if name == "select":
            conds = self.ev(n.args[0])
            vals = [self.num(v) for v in self.ev(n.args[1])]
            default = [k for k in n.keywords if k.arg == "default"]
            out = None
            for c, v in reversed(list(zip(conds, vals))):
                if z3.is_true(c):
                    out = v
                elif out is None:
                    tr.need("select falls through to default=nan", c)
                    out = v
                else:
                    out = Cx(z3.If(c, v.re, out.re), None if v.im is None and out.im is None else z3.If(c, v.imz, out.imz))
            return out
        if name in {"greater", "less", "greater_equal", "less_equal", "equal", "not_equal"}:
            a, b = (self.num(self.ev(x)) for x in n.args)
            return {
                "greater": a.re > b.re, "less": a.re < b.re, "greater_equal": a.re >= b.re,
                "less_equal": a.re <= b.re, "equal": a.eq(b), "not_equal": z3.Not(a.eq(b)),
            }[name]
        if name == "logical_and":
            return z3.And(*[self.ev(x) for x in n.args])
        if name == "logical_or":
            return z3.Or(*[self.ev(x) for x in n.args])
        if name == "logical_not":
            return z3.Not(self.ev(n.args[0]))
        if name == "cos":
            return Cx(self.angle_of(n.args[0]).c)
        if name == "sin":
            return Cx(self.angle_of(n.args[0]).s)
        if name == "arccos":
            u = self.num(self.ev(n.args[0]))
            tr.need("arccos argument in [-1,1] (generated code)", z3.And(u.re >= -1, u.re <= 1))
            s = tr.sqrt_real(1 - u.re * u.re, mode="real", what="(sin of arccos, generated code)")
            return Ang(u.re, s.re)
        if name == "arctan2":
            y, x = (self.num(self.ev(a)) for a in n.args)
            r = tr.sqrt_real(x.re * x.re + y.re * y.re, mode="real", what="(arctan2 radius)")
            tr.need("arctan2 argument != (0,0) (generated code)", r.re != 0)
            return Ang(x.re / r.re, y.re / r.re)
        if name == "abs":
            v = self.num(self.ev(n.args[0]))
            if v.is_real:
                return Cx(z3.If(v.re >= 0, v.re, -v.re))
            return tr.sqrt_real(v.abs2(), mode="real")
        if name == "conjugate":
            return self.num(self.ev(n.args[0])).conj()
        if name == "real":
            return Cx(self.num(self.ev(n.args[0])).re)
        if name == "imag":
            return Cx(self.num(self.ev(n.args[0])).imz)
        if name == "exp":
            a = n.args[0]
            if isinstance(a, ast.BinOp) and isinstance(a.op, ast.Mult):
                for k, other in ((a.left, a.right), (a.right, a.left)):
                    if isinstance(k, ast.Constant) and isinstance(k.value, complex) and k.value.real == 0:
                        ang = self.angle_of(other)
                        if k.value.imag == 1:
                            return Cx(ang.c, ang.s)
                        if k.value.imag == -1:
                            return Cx(ang.c, -ang.s)
            raise NpvcUnsupported("exp of a non-imaginary argument")
        raise NpvcUnsupported(f"function {name}")


def _full_slice(n) -> bool:
    return isinstance(n, ast.Slice) and n.lower is None and n.upper is None and n.step is None


def _tmap(t, f):
    if isinstance(t, Cx):
        return f(t)
    if isinstance(t, list):
        return [_tmap(x, f) for x in t]
    raise NpvcUnsupported(f"arithmetic on {type(t).__name__}")


def _tzip(a, b, f):
    if isinstance(a, Cx) and isinstance(b, Cx):
        return f(a, b)
    if isinstance(a, list) and isinstance(b, Cx):
        return [_tzip(x, b, f) for x in a]
    if isinstance(a, Cx) and isinstance(b, list):
        return [_tzip(a, y, f) for y in b]
    if isinstance(a, list) and isinstance(b, list) and len(a) == len(b):
        return [_tzip(x, y, f) for x, y in zip(a, b)]
    raise NpvcUnsupported("broadcast")


def einsum(subs: str, tensors: list[Any]) -> Any:
    """Denotation of numpy.einsum for subscripts of the form '...ab,...bc,...c->...a' (explicit output)."""
    if "->" not in subs:
        raise NpvcUnsupported("einsum without explicit output")
    lhs, out = subs.split("->")
    ins = lhs.split(",")
    if len(ins) != len(tensors):
        raise NpvcUnsupported("einsum operand count")
    ins = [s.replace("...", "", 1) if s.startswith("...") else None for s in ins]
    if any(s is None for s in ins) or not out.startswith("..."):
        raise NpvcUnsupported("einsum without leading ellipsis (batch axis)")
    out = out[3:]
    dims: dict[str, int] = {}
    for s, t in zip(ins, tensors):
        shape = _shape(t)
        if len(shape) != len(s):
            raise NpvcUnsupported(f"einsum rank mismatch {s} vs {shape}")
        for ch, d in zip(s, shape):
            if dims.setdefault(ch, d) != d:
                raise NpvcUnsupported("einsum dimension mismatch")
    for ch in out:
        if ch not in dims:
            raise NpvcUnsupported("einsum output index not among inputs")
    summed = [ch for ch in dims if ch not in out]

    def get(t, idx):
        for i in idx:
            t = t[i]
        return t

    def build(level: int, assign: dict[str, int]):
        if level == len(out):
            acc = CZERO
            import itertools

            for combo in itertools.product(*[range(dims[ch]) for ch in summed]):
                a = dict(assign)
                a.update(dict(zip(summed, combo)))
                term = CONE
                for s, t in zip(ins, tensors):
                    term = term * get(t, [a[ch] for ch in s])
                acc = acc + term
            return acc
        ch = out[level]
        return [build(level + 1, {**assign, ch: i}) for i in range(dims[ch])]

    return build(0, {})


def _shape(t) -> tuple[int, ...]:
    if isinstance(t, Cx):
        return ()
    return (len(t),) + _shape(t[0])


# ---------------------------------------------------------------------------------------------
def code_vs_symbolic(chk, name: str, fn: str, expr, tr: Tr, requires: list[Any], symbolic_value, cse: bool, replay=None, wd=True) -> None:
    """Obligations: generated code binds its names; its denotation equals `symbolic_value` entrywise."""
    from . import e1

    args = ordered_args(expr)
    unfolded = expr.doit()
    try:
        f0, src = lambdify_source(args, unfolded, cse)
    except Exception as e:  # noqa: BLE001
        chk.struct(f"{name}.lambdify_succeeds", False, fn, witness=f"{type(e).__name__}: {e}")
        return
    import builtins

    known = KNOWN_FUNCS | KNOWN_CONSTS
    in_scope = set(getattr(f0, "__globals__", {})) | set(dir(builtins))
    loaded = free_names(src)
    unbound = sorted(loaded - in_scope - known)  # a NameError when the function is called
    unmodelled = sorted((loaded - known) & in_scope)  # bound in lambdify's namespace, but outside the subset this engine denotes

    def rep_names(_model):
        import numpy as np

        f, _ = lambdify_source(args, unfolded, cse)
        vals = [np.array([[2.0, 0.3, 0.4, 0.5]]) if isinstance(a, ArraySymbol) else np.array([0.3]) for a in args]
        try:
            f(*vals)
        except NameError as e:
            return {"reproduced": True, "input": f"lambdify({[str(a) for a in args]}, expr.doit(), 'numpy', cse={cse}) called on one event",
                    "observed": f"NameError: {e}", "expected": "a numpy array"}
        return {"reproduced": False}

    chk.struct(f"{name}.names_bound", not unbound, fn, witness={"unbound_names": unbound, "cse": cse}, replay=rep_names)
    if unbound:
        return
    want = flatten(symbolic_value)
    hyps = requires + tr.hyps()

    def rep_code(model):
        """Run the real generated function at the counter-model and compare with the contract value there."""
        import math

        import numpy as np

        f, _ = lambdify_source(args, unfolded, cse)
        vals = []
        for s in args:
            if isinstance(s, ArraySymbol):
                vals.append(np.array([[float(model.get(f"{s.name}_{c}", 0.0)) for c in "Exyz"]]))
            elif f"cos_{s.name}" in model or f"sin_{s.name}" in model:
                vals.append(np.array([math.atan2(float(model.get(f"sin_{s.name}", 0)), float(model.get(f"cos_{s.name}", 1)))]))
            else:
                vals.append(np.array([float(model.get(s.name, 0.0))]))
        try:
            out = np.asarray(f(*vals))
        except Exception as e:  # noqa: BLE001
            return {"reproduced": True, "observed": f"{type(e).__name__}: {e}"}
        flat_out = []
        o = out[0] if out.ndim >= 1 and out.shape[0] == 1 else out
        for y in np.asarray(o).reshape(-1):
            flat_out.append(complex(y))
        from .e1 import cfloat

        exp = [cfloat(w, model) for w in want]
        if len(exp) != len(flat_out):
            return {"reproduced": False, "note": f"shape {len(flat_out)} vs {len(exp)}"}
        err = max(abs(a - b) for a, b in zip(flat_out, exp))
        return {"reproduced": bool(not math.isfinite(err) or err > 1e-7 * (1 + max(abs(b) for b in exp))),
                "input": {k: float(v) for k, v in model.items() if not isinstance(v, bool)},
                "observed_generated_code_output": [str(c) for c in flat_out], "expected_explicit_matrix": [str(c) for c in exp], "max_abs_err": err}

    def rep_sampled(_model=None):
        """Outside the denoted subset: the real generated function against the contract value at a few models of the precondition
        (found by z3; successive models are pushed apart). A disagreement is a real failing input; agreement decides nothing."""
        import z3 as _z3

        from .e1 import model_to_dict

        sol = _z3.Solver()
        sol.set("timeout", 5000)
        sol.add(*hyps)
        last = None
        for _ in range(4):
            if sol.check() != _z3.sat:
                break
            m = sol.model()
            md = model_to_dict(m)
            r = rep_code(md)
            last = r
            if r.get("reproduced"):
                return r
            reals = [d for d in m.decls() if d.arity() == 0 and _z3.is_real(d())]
            if not reals:
                break
            sol.add(_z3.Or(*[_z3.Or(d() > m[d] + 0.25, d() < m[d] - 0.25) for d in reals[:3]]))
        return {"reproduced": False, "note": "generated code agrees with the contract value at the sampled models", "last": last}

    if unmodelled:
        chk.struct(f"{name}.in_supported_subset", False, fn, witness={"names_outside_the_denoted_subset": unmodelled, "cse": cse}, lemma=True, replay=replay or rep_sampled)
        return
    n_wd = len(tr.wd)
    try:
        val = Interp(tr, args).run(src)
    except UnboundName as e:
        chk.struct(f"{name}.names_bound_in_interp", False, fn, witness=str(e), replay=rep_names)
        return
    except NpvcUnsupported as e:
        chk.struct(f"{name}.in_supported_subset", False, fn, witness=str(e), lemma=True, replay=replay or rep_sampled)
        return
    chk.struct(f"{name}.in_supported_subset", True, fn, lemma=True)
    if wd:
        e1.add_wd(chk, f"{name}.code", tr, requires, fn, start=n_wd)
    got, want = flatten(val), flatten(symbolic_value)
    chk.struct(f"{name}.shape", len(got) == len(want), fn, witness=f"{len(got)} vs {len(want)} entries")
    if len(got) != len(want):
        return
    hyps = requires + tr.hyps()  # including the definitions recorded while the code was denoted
    for i, (g, w) in enumerate(zip(got, want)):
        chk.smt(f"{name}.code==symbolic[{i}]", hyps, g.eq(w), function=fn, replay=replay or rep_code)


def c08_codegen_obligations(chk, tier: str) -> None:
    import string

    from ampform.kinematics import lorentz as L
    from ampform.sympy._array_expressions import ArrayMultiplication, MatrixMultiplication
    from contracts import specs_kin as K

    F = "ampform.kinematics.lorentz."
    p, q = L.create_four_momentum_symbol(0), L.create_four_momentum_symbol(1)
    a, b = sp.Symbol("a", real=True), sp.Symbol("beta", real=True)
    nev = L.ArraySize(p)

    def preq(tr):
        E, x, y, z = (c.re for c in tr.val(p))
        return [E > 0, E * E - x * x - y * y - z * z > 0, x * x + y * y + z * z > 0]

    def numeric_replay(expr, cse):
        def rep(model):
            import numpy as np

            args = ordered_args(expr)
            f, _ = lambdify_source(args, expr.doit(), cse)
            vals = []
            for s in args:
                if isinstance(s, ArraySymbol):
                    vals.append(np.array([[float(model.get(f"{s.name}_{c}", 0.0)) for c in "Exyz"]]))
                elif f"cos_{s.name}" in model:
                    import math

                    vals.append(np.array([math.atan2(float(model[f"sin_{s.name}"]), float(model[f"cos_{s.name}"]))]))
                else:
                    vals.append(np.array([float(model.get(s.name, 0.0))]))
            try:
                out = f(*vals)
                return {"reproduced": False, "observed": str(np.asarray(out).tolist())[:600], "note": "numeric output recorded; compare with as_explicit()"}
            except Exception as e:  # noqa: BLE001
                return {"reproduced": True, "observed": f"{type(e).__name__}: {e}"}

        return rep

    for cse in (True, False):
        tag = f"cse={'on' if cse else 'off'}"
        # general boost
        tr = Tr(f"cB{int(cse)}")
        req = preq(tr)
        B = L.BoostMatrix(p)
        sym = tr.val(B.as_explicit())
        code_vs_symbolic(chk, f"BoostMatrix.numpycode[{tag}]", F + "_BoostMatrixImplementation._numpycode", B, tr, req, sym, cse)
        # z boost (evaluate() uses sqrt -> requires |beta|<1)
        tr = Tr(f"cBz{int(cse)}")
        bv = tr.val(b).re
        req = [bv > -1, bv < 1]
        BZ = L.BoostZMatrix(b, nev)
        sym = K.boostz_spec(tr, tr.val(b))
        code_vs_symbolic(chk, f"BoostZMatrix.numpycode[{tag}]", F + "_BoostZMatrixImplementation._numpycode", BZ, tr, req, sym, cse)
        a2 = sp.Symbol("a2", real=True)
        for cls in (L.RotationYMatrix, L.RotationZMatrix):
            tr = Tr(f"c{cls.__name__}{int(cse)}")
            Rm = cls(a, nev)
            sym = tr.val(Rm.as_explicit())
            code_vs_symbolic(chk, f"{cls.__name__}.numpycode[{tag}]", F + f"_{cls.__name__}Implementation._numpycode", Rm, tr, [], sym, cse)
            # composite angle arguments (a printer template that pastes '-{sin}' is only wrong when sin prints as a sum)
            for kind, ang in (("sum", a + a2), ("neg", -a), ("double", 2 * a), ("diff", a - a2), ("diff2", a - 2 * a2)):
                # 'diff2' after 'diff': the two trees differ in -1 vs -2 only, and hash(-1) == hash(-2) in CPython -- anything keyed by hash alone conflates them
                tr = Tr(f"c{cls.__name__}{int(cse)}{kind}")
                Rm = cls(ang, nev)
                sym = tr.val(Rm.as_explicit())
                code_vs_symbolic(chk, f"{cls.__name__}(angle={kind}).numpycode[{tag}]", F + f"_{cls.__name__}Implementation._numpycode", Rm, tr, [], sym, cse)
        for kind, bexpr in (("neg", -b), ("half", b / 2), ("neg2", -2 * b / 3)):
            tr = Tr(f"cBz{int(cse)}{kind}")
            bv = tr.val(b).re
            req = [bv > -1, bv < 1]
            BZ = L.BoostZMatrix(bexpr, nev)
            sym = K.boostz_spec(tr, tr.scalar(bexpr))
            code_vs_symbolic(chk, f"BoostZMatrix(beta={kind}).numpycode[{tag}]", F + "_BoostZMatrixImplementation._numpycode", BZ, tr, req, sym, cse)
        # metric / negative momentum
        tr = Tr(f"cNeg{int(cse)}")
        NM = L.NegativeMomentum(p)
        code_vs_symbolic(chk, f"NegativeMomentum.numpycode[{tag}]", F + "MinkowskiMetric._numpycode", NM, tr, [], K._neg_mom(tr, NM), cse)
        # invariant mass (ComplexSqrt printing)
        tr = Tr(f"cIM{int(cse)}", sqrt_mode="principal")
        IM = L.InvariantMass(p)
        E, x, y, z = (c.re for c in tr.val(p))
        for region, cond in (("timelike", E * E - x * x - y * y - z * z >= 0), ("spacelike", E * E - x * x - y * y - z * z < 0)):
            t2 = Tr(f"cIM{int(cse)}{region}", sqrt_mode="principal")
            E, x, y, z = (c.re for c in t2.val(p))
            cond = E * E - x * x - y * y - z * z >= 0 if region == "timelike" else E * E - x * x - y * y - z * z < 0
            code_vs_symbolic(chk, f"InvariantMass.numpycode[{tag}/{region}]", "ampform.sympy.math.ComplexSqrt._numpycode", IM, t2, [cond], K._inv_mass(t2, IM), cse)
        # products: boost applied to another momentum, matrix product of rotation and boost
        if cse:
            tr = Tr("cAM")
            req = preq(tr)
            AM = ArrayMultiplication(L.BoostMatrix(p), q)
            code_vs_symbolic(chk, f"ArrayMultiplication(Boost,q).numpycode[{tag}]", "ampform.sympy._array_expressions.ArrayMultiplication._numpycode",
                             AM, tr, req, tr.val(AM), cse)
            tr = Tr("cMM")
            MMn = MatrixMultiplication(L.RotationZMatrix(a, nev), L.RotationYMatrix(b, nev))
            code_vs_symbolic(chk, f"MatrixMultiplication(Rz,Ry).numpycode[{tag}]", "ampform.sympy._array_expressions.MatrixMultiplication._numpycode",
                             MMn, tr, [], tr.val(MMn), cse)

    # einsum subscripts: for every n the subscript string is the chain contraction
    AEF = "ampform.sympy._array_expressions."
    for n in range(1, 19):
        s = ArrayMultiplication._create_einsum_subscripts(n)
        letters = string.ascii_lowercase[8 : 8 + n]
        want = ",".join(f"...{letters[i]}{letters[i + 1]}" for i in range(n - 1)) + ("," if n > 1 else "") + f"...{letters[n - 1]}->...{letters[0]}"
        chk.struct(f"ArrayMultiplication.einsum_subscripts[n={n}]", s == want, AEF + "ArrayMultiplication._create_einsum_subscripts",
                   witness={"got": s, "chain_contraction": want})
    for n in range(1, 18):
        s = MatrixMultiplication._create_einsum_subscripts(n)
        letters = string.ascii_lowercase[8 : 8 + n + 1]
        want = ",".join(f"...{letters[i]}{letters[i + 1]}" for i in range(n)) + f"->...{letters[0]}{letters[n]}"
        chk.struct(f"MatrixMultiplication.einsum_subscripts[n={n}]", s == want, AEF + "MatrixMultiplication._create_einsum_subscripts",
                   witness={"got": s, "chain_contraction": want})
    # and the chain-contraction string denotes the nested product (generic matrices, n <= 4)
    for n in (2, 3, 4):
        mats = [[[Cx(z3.Real(f"M{k}_{i}{j}")) for j in range(4)] for i in range(4)] for k in range(n - 1)]
        vec = [Cx(z3.Real(f"v_{i}")) for i in range(4)]
        got = einsum(ArrayMultiplication._create_einsum_subscripts(n), mats + [vec])
        want = vec
        for m in reversed(mats):
            want = matvec(m, want)
        chk.smt(f"ArrayMultiplication.einsum_denotes_chain_product[n={n}]", [], eq_all(got, want), function=AEF + "ArrayMultiplication._create_einsum_subscripts")
    for n in (2, 3):
        mats = [[[Cx(z3.Real(f"M{k}_{i}{j}")) for j in range(4)] for i in range(4)] for k in range(n)]
        got = einsum(MatrixMultiplication._create_einsum_subscripts(n), mats)
        want = mats[0]
        for m in mats[1:]:
            want = matmul(want, m)
        chk.smt(f"MatrixMultiplication.einsum_denotes_chain_product[n={n}]", [], eq_all(got, want), function=AEF + "MatrixMultiplication._create_einsum_subscripts")
