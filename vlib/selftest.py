"""Differential self-test of the E3 symbolic executor (vlib/pyvc.py) against CPython.

For every function of vlib/selftest_cases.py: execute it symbolically with integer parameters; then, for many concrete inputs, (1) exactly one
path condition must be true at the input, and (2) that path's symbolic result, evaluated at the input, must equal what CPython returns.
A disagreement is an ENGINE defect (never a property violation): exit 3. Run: ./tools/engine_selftest.sh
"""
from __future__ import annotations

import inspect
import itertools
import random
import sys

import z3

from vlib import pynatives as N
from vlib.pyvc import SV, Executor, Rec, State, Unsupported, _unhash

from vlib import selftest_cases as C


def concretize(v, sub):
    if isinstance(v, SV):
        t = z3.simplify(z3.substitute(v.t, *sub))
        if z3.is_int_value(t):
            return t.as_long()
        if z3.is_true(t) or z3.is_false(t):
            return z3.is_true(t)
        if z3.is_rational_value(t):
            return t.numerator_as_long() / t.denominator_as_long()
        raise ValueError(f"not a value: {t}")
    if isinstance(v, tuple) and hasattr(v, "_fields"):
        return type(v)(*[concretize(x, sub) for x in v])
    if isinstance(v, list):
        return [concretize(x, sub) for x in v]
    if isinstance(v, tuple):
        return tuple(concretize(x, sub) for x in v)
    if isinstance(v, dict):
        return {concretize(_unhash(k), sub): concretize(x, sub) for k, x in v.items()}
    if isinstance(v, (set, frozenset)):
        return {concretize(_unhash(x), sub) for x in v}
    if isinstance(v, Rec):
        raise ValueError("record result")
    return v


def run_case(fn, rng, n_random: int = 120) -> tuple[int, list[str]]:
    params = list(inspect.signature(fn).parameters)
    records = getattr(fn, "records", {})
    names, sym_args = [], []  # names: one per symbolic integer (record fields flattened)
    for p_ in params:
        if p_ in records:
            fields = {f_: SV(z3.Int(f"p_{p_}_{f_}"), "int") for f_ in records[p_]}
            names += [f"{p_}_{f_}" for f_ in records[p_]]
            sym_args.append(Rec("Box", {**fields, "log": []}, C.Box))
        else:
            names.append(p_)
            sym_args.append(SV(z3.Int(f"p_{p_}"), "int"))
    syms = [z3.Int(f"p_{n}") for n in names]

    def real_call(inp):
        it = iter(inp)
        args = [C.Box(*[next(it) for _ in records[p_]]) if p_ in records else next(it) for p_ in params]
        return fn(*args)

    ex = Executor("selftest")
    N.install_basic(ex)
    ex.auto_inline_prefixes = ("vlib.selftest_cases",)
    try:
        outs = ex.run(fn, sym_args, st=State())
    except Unsupported as e:
        return 0, [f"{fn.__name__}: outside the supported subset: {e}"]
    problems = []
    small = list(itertools.product(range(-2, 5), repeat=len(names))) if len(names) <= 2 else []
    inputs = small + [tuple(rng.randint(-4, 12) for _ in names) for _ in range(n_random)]
    for inp in inputs:
        sub = [(s, z3.IntVal(x)) for s, x in zip(syms, inp)]
        try:
            want = ("return", real_call(inp))
        except Exception as e:  # noqa: BLE001
            want = ("raise", type(e).__name__)
        live = []
        for o in outs:
            pc = z3.simplify(z3.substitute(z3.And(*o.st.pc), *sub)) if o.st.pc else z3.BoolVal(True)
            if z3.is_true(pc):
                live.append(o)
            elif not z3.is_false(pc):
                problems.append(f"{fn.__name__}{inp}: path condition does not evaluate: {pc}")
        if len(live) != 1:
            problems.append(f"{fn.__name__}{inp}: {len(live)} paths cover the input (must be exactly 1)")
            continue
        o = live[0]
        try:
            got = (o.kind, concretize(o.value, sub) if o.kind == "return" else o.value.type_name)
        except ValueError as e:
            problems.append(f"{fn.__name__}{inp}: result not concrete: {e}")
            continue
        if got != want or (o.kind == "return" and repr(got[1]) != repr(want[1])):
            problems.append(f"{fn.__name__}{inp}: engine {got!r} != CPython {want!r}")
        if len(problems) > 3:
            break
    return len(inputs), problems


def run_all(n_random: int = 120, verbose: bool = False) -> dict:
    rng = random.Random(20261003)
    total, bad = 0, []
    for fn in C.CASES:
        n, problems = run_case(fn, rng, n_random)
        total += n
        if verbose:
            print(f"{'ok' if not problems else 'FAIL':4} {fn.__name__} ({n} inputs)")
            for p in problems[:4]:
                print("     " + p)
        bad += problems
    return {"cases": len(C.CASES), "inputs": total, "disagreements": bad}


def main() -> int:
    r = run_all(verbose=True)
    print(f"ENGINE-SELFTEST cases={r['cases']} inputs={r['inputs']} disagreements={len(r['disagreements'])}")
    return 3 if r["disagreements"] or not r["inputs"] else 0


if __name__ == "__main__":
    sys.exit(main())
