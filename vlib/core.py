"""Obligation bookkeeping, verdict policy, evidence and replay files.

Exit codes of a check:
  0  every obligation discharged (known findings printed as KNOWN-FINDING lines)
  1  a violation: an obligation refuted and (a) its counter-model replays on the real code, or
     (b) the obligation is recorded as discharged in obligations.baseline.json (it used to hold
     on the reference tree) and now has a definite negative answer -> "... no-failing-input-found"
  2  undecided (solver unknown/timeout, code left the supported subset, refutation not replayed
     and not in the ledger)
  3  checker error (exception in the machinery, zero obligations, fewer obligations than ledger)
"""

from __future__ import annotations

import json
import os
import sys
import time
import traceback
from concurrent.futures import ThreadPoolExecutor
from dataclasses import dataclass, field
from typing import Any, Callable

import z3

from . import smt

ROOT = os.path.dirname(os.path.dirname(os.path.abspath(__file__)))
REPO = os.environ.get("VERIF_REPO", "/repo")
LEDGER_DIR = os.path.join(ROOT, "ledger")  # ledger/<id>.json: obligation names discharged on the reference tree
KNOWN = os.path.join(ROOT, "known_findings.txt")
OUT = os.environ.get("VERIF_OUT") or ROOT  # scratch runs (self-test on a mutated copy) write elsewhere


@dataclass
class Obligation:
    """One proof obligation.

    kind:
      "smt"     hyps |= claim must be valid (hyps /\\ not claim unsat)
      "cover"   hyps must be satisfiable (vacuity guard); optional `model_check(model)->str|None`
      "struct"  a structural (syntactic / finite) obligation already decided by the generator:
                `holds` is True/False, `witness` describes the failing case
      "mustfail" hyps |= claim must be *refuted* (engine self-test)
    """

    name: str
    kind: str = "smt"
    hyps: list[Any] = field(default_factory=list)
    claim: Any = None
    function: str = ""  # qualified name of the real function under contract
    holds: bool | None = None  # for struct
    witness: Any = None
    replay: Callable[[dict[str, Any]], dict[str, Any] | None] | None = None
    # replay(model) -> {"reproduced": bool, "input": ..., "expected": ..., "observed": ...}
    model_check: Callable[[dict[str, Any]], str | None] | None = None
    timeout: float | None = None
    tactics: tuple[str, ...] | None = None
    lemma: bool = False  # True: internal step of the proof (body meets spec); its failure alone means
    # "proof broken" (undecided) unless its replay shows the *property* failing on the real code
    bounded: bool = False  # True: instance-level check on an enumerated input (not counted as proved)
    note: str = ""
    # filled by the runner
    status: str = ""
    solver: str = ""
    seconds: float = 0.0
    model: dict[str, Any] = field(default_factory=dict)
    detail: str = ""
    size: int = 0
    _smt2: Any = None


class Undecided(Exception):
    """Raised by a contract generator when the code left the supported subset."""


def load_known(prop: str) -> list[dict[str, Any]]:
    out = []
    if os.path.exists(KNOWN):
        with open(KNOWN) as f:
            for line in f:
                line = line.strip()
                if not line or line.startswith("#"):
                    continue
                status, _, rest = line.partition(":")
                status = status.strip()
                if status not in {"open", "fixed"}:
                    continue
                body, _, obs = rest.partition("| obligations=")
                body = body.strip()
                if not body.startswith(f"property={prop} "):
                    continue
                out.append({
                    "status": status,
                    "what": body[len(f"property={prop} "):],
                    "obligations": [o.strip() for o in obs.split(",") if o.strip()],
                })
    return out


def load_ledger(prop: str) -> list[str] | None:
    path = os.path.join(LEDGER_DIR, f"{prop}.json")
    if os.path.exists(path):
        with open(path) as f:
            return json.load(f)["obligations"]
    return None


def load_ledger_abstractions(prop: str) -> set[str] | None:
    """Names of the default abstractions (`call_*`: calls the symbolic executor does not model, A-pure) that occur in the obligations of
    the reference run. None for ledgers written before this was recorded."""
    path = os.path.join(LEDGER_DIR, f"{prop}.json")
    if os.path.exists(path):
        with open(path) as f:
            d = json.load(f)
        return set(d["abstractions"]) if "abstractions" in d else None
    return None


_CALL_SYM = __import__("re").compile(r"call_[^\s|()]+")


def abstraction_symbols(text: str | None) -> set[str]:
    return set(_CALL_SYM.findall(text or ""))


def _jsonable(x: Any) -> Any:
    from fractions import Fraction

    if isinstance(x, Fraction):
        return f"{x.numerator}/{x.denominator}" if x.denominator != 1 else x.numerator
    if isinstance(x, dict):
        return {str(k): _jsonable(v) for k, v in x.items()}
    if isinstance(x, (list, tuple, set, frozenset)):
        return [_jsonable(v) for v in x]
    if isinstance(x, (str, int, float, bool)) or x is None:
        return x
    return str(x)


class Check:
    def __init__(self, prop: str, tier: str, level: str, technique: str):
        self.prop = prop
        self.tier = tier
        self.level = level
        self.technique = technique
        self.seed = int(os.environ.get("VERIF_SEED", "0") or 0)
        self.t0 = time.time()
        self.obligations: list[Obligation] = []
        self.functions: set[str] = set()
        self.assumptions: list[str] = []
        self.trusted: list[str] = []
        self.notes: list[str] = []
        self.extra: dict[str, Any] = {}
        self.default_timeout = 60.0 if tier == "quick" else 300.0
        self.undecided_msgs: list[str] = []

    # -- registration ------------------------------------------------------------
    def add(self, ob: Obligation) -> Obligation:
        if ob.function:
            self.functions.add(ob.function)
        self.obligations.append(ob)
        return ob

    def smt(self, name, hyps, claim, function="", replay=None, **kw) -> Obligation:
        return self.add(Obligation(name, "smt", list(hyps), claim, function, replay=replay, **kw))

    def cover(self, name, hyps, function="", model_check=None, **kw) -> Obligation:
        return self.add(Obligation(name, "cover", list(hyps), None, function, model_check=model_check, **kw))

    def struct(self, name, holds, function="", witness=None, replay=None, **kw) -> Obligation:
        return self.add(
            Obligation(name, "struct", [], None, function, holds=bool(holds), witness=witness, replay=replay, **kw)
        )

    def mustfail(self, name, hyps, claim, function="", **kw) -> Obligation:
        return self.add(Obligation(name, "mustfail", list(hyps), claim, function, **kw))

    def guarded(self, name: str, thunk, function: str = "", replay=None):
        """Run a piece of obligation generation; if the real code's result left the translatable subset, record
        that as a refuted *lemma* obligation (the proof cannot be built) whose replay looks for a property-level
        failure on the real code. Returns the thunk's value or None."""
        from .tr import TrError

        try:
            out = thunk()
        except (TrError, Undecided, AttributeError, TypeError, ValueError, KeyError, IndexError, NotImplementedError) as e:
            self.add(Obligation(name + ".translatable", "struct", function=function, holds=False, lemma=True,
                                witness=f"{type(e).__name__}: {e}"[:300], replay=replay))
            return None
        self.add(Obligation(name + ".translatable", "struct", function=function, holds=True, lemma=True))
        return out

    def assume(self, text: str) -> None:
        if text not in self.assumptions:
            self.assumptions.append(text)

    def trust(self, text: str) -> None:
        if text not in self.trusted:
            self.trusted.append(text)

    # -- running -----------------------------------------------------------------
    def _run_one(self, ob: Obligation) -> None:
        if ob.kind == "struct":
            ob.status = "unsat" if ob.holds else "sat"
            ob.solver = "structural"
            return
        text = ob._smt2  # serialised in the main thread (z3 contexts are not thread-safe)
        if text is None:
            return
        v = smt.solve(
            text,
            timeout=ob.timeout or self.default_timeout,
            tactics=ob.tactics or ("default", "nlsat"),
        )
        ob.status, ob.solver, ob.seconds, ob.model, ob.detail = v.status, v.solver, v.seconds, v.model, v.detail

    def run(self, workers: int | None = None) -> None:
        workers = workers or int(os.environ.get("VERIF_JOBS", "0") or 0) or min(16, os.cpu_count() or 4)
        pending = [o for o in self.obligations if not o.status]
        for ob in pending:
            ob._smt2 = None
            if ob.kind == "struct":
                continue
            try:
                ob._smt2 = smt.to_smt2(ob.hyps, ob.claim if ob.kind in {"smt", "mustfail"} else None)
                ob.size = len(ob._smt2)
            except Exception as e:  # noqa: BLE001
                ob.status, ob.detail = "error", f"serialise: {e}"
            ob.hyps, ob.claim = [], None  # free the terms
        with ThreadPoolExecutor(max_workers=workers) as ex:
            list(ex.map(self._run_one, pending))

    # -- verdict -----------------------------------------------------------------
    def finish(self) -> int:
        """Classify, write evidence, print lines, return exit code."""
        known = load_known(self.prop)
        ledger = None if getattr(self, "ignore_ledger", False) else load_ledger(self.prop)
        violations: list[tuple[Obligation, str, bool]] = []  # (ob, replay path, has_input)
        known_hits: list[tuple[Obligation, dict[str, Any]]] = []
        undecided: list[Obligation] = []
        errors: list[Obligation] = []
        discharged = 0
        names = [o.name for o in self.obligations]
        dup = {n for n in names if names.count(n) > 1}
        if dup:
            print(f"CHECKER-ERROR duplicate obligation names: {sorted(dup)[:5]}")
            return self._write_and_exit(3, 0, [], [], [], "duplicate obligation names")
        for ob in self.obligations:
            ok = (
                (ob.kind in {"smt", "struct"} and ob.status == "unsat")
                or (ob.kind == "cover" and ob.status == "sat")
                or (ob.kind == "mustfail" and ob.status == "sat")
            )
            if ok and ob.kind == "cover" and ob.model_check is not None:
                try:
                    msg = ob.model_check(ob.model)
                except Exception as e:  # noqa: BLE001
                    msg = f"model_check raised {type(e).__name__}: {e}"
                if msg:
                    ob.detail = f"cover model disagrees with real code: {msg}"
                    ob.status = "error"
                    errors.append(ob)
                    continue
            if ok:
                discharged += 1
                continue
            if ob.status == "error":
                errors.append(ob)
                continue
            if ob.kind == "mustfail":
                ob.detail = "engine self-test: a false postcondition was not refuted"
                errors.append(ob)
                continue
            if ob.kind == "cover":
                if ob.status == "unsat":
                    ob.detail = "vacuous contract: requires is unsatisfiable"
                    errors.append(ob)
                else:
                    undecided.append(ob)
                continue
            if ob.status in {"unknown", "timeout", ""}:
                # the solver gave no answer; a replay that finds a concrete failing input ON THE REAL CODE still decides it
                rep = None
                if ob.replay is not None and ob.kind in {"smt", "struct"}:
                    try:
                        rep = ob.replay({})
                    except Exception:  # noqa: BLE001
                        rep = None
                if rep and rep.get("reproduced"):
                    ob.detail = (ob.detail + " | solver undecided; refuted by a concrete input replayed on the real code").strip()
                    violations.append((ob, self._write_replay(ob, rep, True), True))
                else:
                    undecided.append(ob)
                continue
            # definite refutation (sat / structural failure)
            kf = _match_known(known, ob)
            if kf is not None:
                known_hits.append((ob, kf))
                continue
            rep = None
            if ob.replay is not None:
                try:
                    rep = ob.replay(ob.model)
                except Exception:  # noqa: BLE001
                    rep = {"reproduced": False, "error": traceback.format_exc()[-800:]}
            reproduced = bool(rep and rep.get("reproduced"))
            in_ledger = ledger is not None and ob.name in ledger and not ob.lemma
            # a counter-model that lives in an ABSTRACTION is not a counter-example: calls the symbolic executor does not model are
            # uninterpreted functions (`call_*`), and the solver may give them any value. If the refuted formula mentions such a stand-in
            # that did NOT occur in the reference run (the changed code calls something new that the engine cannot see into: an extracted
            # helper with an unsupported body, functools.reduce over a generator, ...), the refutation is not trusted without a replay
            # on the real code: undecided.
            if in_ledger and not reproduced and ob.kind == "smt":
                ref_syms = load_ledger_abstractions(self.prop)
                new_syms = sorted(abstraction_symbols(getattr(ob, "_smt2", None)) - ref_syms) if ref_syms is not None else []
                if new_syms:
                    ob.detail = (ob.detail + f" | refuted only under abstractions that the reference run did not need {new_syms[:4]} (calls the executor cannot interpret); not replayed on the real code").strip()
                    undecided.append(ob)
                    continue
            if reproduced or in_ledger:
                path = self._write_replay(ob, rep, reproduced)
                violations.append((ob, path, reproduced))
            else:
                ob.detail = (ob.detail + (" | lemma refuted (proof step broken); no property-level failure replayed"
                                          if ob.lemma else " | refuted but neither replayed on the real code nor in the ledger")).strip()
                undecided.append(ob)
        code = 0
        reason = ""
        if ledger is not None:
            missing = [n for n in ledger if n not in names]
            if missing:
                # an obligation that used to be generated is gone: the code under contract changed shape
                print(f"CHECKER-ERROR {len(missing)} obligations of the ledger were not generated, e.g. {missing[:3]}")
                code, reason = 3, f"ledger obligations missing: {missing[:5]}"
        if not self.obligations:
            print("CHECKER-ERROR zero obligations generated")
            code, reason = 3, "zero obligations"
        if errors:
            for ob in errors[:10]:
                print(f"CHECKER-ERROR obligation={ob.name} {ob.detail[:300]}")
            code, reason = 3, "engine errors"
        if undecided and code == 0:
            code = 2
        for ob in undecided[:20]:
            why = f" | witness: {str(ob.witness)[:240]}" if ob.kind == "struct" and ob.witness else ""
            print(f"UNDECIDED property={self.prop} obligation={ob.name} status={ob.status} {ob.detail[:200]}{why}".replace("\n", " "))
        for ob, kf in known_hits:
            print(f"KNOWN-FINDING: property={self.prop} {kf.get('what', ob.name)} [obligation={ob.name}]")
        if violations:
            code = 1
            for ob, path, has_input in violations:
                tail = "" if has_input else " no-failing-input-found"
                print(f"FAILED-OBLIGATION property={self.prop} obligation={ob.name} function={ob.function}")
                print(f"VIOLATION property={self.prop} replay={path}{tail}")
        return self._write_and_exit(code, discharged, violations, known_hits, undecided, reason)

    def _write_replay(self, ob: Obligation, rep: dict[str, Any] | None, reproduced: bool) -> str:
        d = os.path.join(OUT, "replays")
        os.makedirs(d, exist_ok=True)
        safe = "".join(c if c.isalnum() or c in "-_." else "_" for c in ob.name)[:120]
        path = os.path.join(d, f"{self.prop}-{safe}.json")
        with open(path, "w") as f:
            json.dump(
                _jsonable({
                    "property": self.prop,
                    "obligation": ob.name,
                    "function": ob.function,
                    "kind": ob.kind,
                    "reproduced_on_real_code": reproduced,
                    "solver": ob.solver,
                    "solver_status": ob.status,
                    "solver_detail": ob.detail,
                    "counter_model": ob.model,
                    "structural_witness": ob.witness,
                    "replay": rep,
                    "repo": REPO,
                    "how_to_rerun": f"./check {self.prop} --replay {path}",
                }),
                f,
                indent=1,
            )
        return path

    def _write_and_exit(self, code, discharged, violations, known_hits, undecided, reason) -> int:
        obs = self.obligations
        proved = [o for o in obs if not o.bounded]
        bounded = [o for o in obs if o.bounded]
        by_solver: dict[str, int] = {}
        for o in obs:
            by_solver[o.solver.split("+")[0] or "none"] = by_solver.get(o.solver.split("+")[0] or "none", 0) + 1
        samples = []
        for o in obs[:: max(1, len(obs) // 12)][:14]:
            samples.append({
                "obligation": o.name,
                "kind": o.kind,
                "function": o.function,
                "status": o.status,
                "solver": o.solver,
                "seconds": round(o.seconds, 3),
                "smt2_bytes": o.size,
                "bounded_instance": o.bounded,
                **({"cover_model": _jsonable(dict(list(o.model.items())[:8]))} if o.kind == "cover" else {}),
            })
        n_ok = discharged
        ev = {
            "property_id": self.prop,
            "tier": self.tier,
            "seed": self.seed,
            "level": self.level,
            "coverage": {
                # obligations refuted by an OPEN known finding are genuine, recorded defects: they are not part of the proof
                # claim and are counted separately (each is printed as a KNOWN-FINDING line)
                "obligations": len(obs) - len(known_hits),
                "discharged": n_ok,
                "obligations_generated_total": len(obs),
                "obligations_refuted_by_open_known_findings": len(known_hits),
                "obligations_unbounded": len(proved),
                "obligations_bounded_instances": len(bounded),
                "checker_cmd": f"./check {self.prop} --tier {self.tier}",
                "trusted_base": self.trusted,
                "evaluations": len(obs),
                "distinct_nontrivial": len({o.name for o in obs if o.kind != "cover"}),
                "rule": "one evaluation = one named proof obligation generated from the current source of the functions "
                "under contract; distinct = distinct obligation names; covers (vacuity guards) are not counted as non-trivial",
                "samples": samples,
                "functions_under_contract": sorted(self.functions),
                "solver_seconds_total": round(sum(o.seconds for o in obs), 2),
                "by_solver": by_solver,
                "slowest": [
                    {"obligation": o.name, "seconds": round(o.seconds, 2), "solver": o.solver}
                    for o in sorted(obs, key=lambda o: -o.seconds)[:5]
                ],
                "known_findings_hit": [
                    {"obligation": o.name, "finding": kf.get("id", kf.get("what"))} for o, kf in known_hits
                ],
                "undecided": [{"obligation": o.name, "status": o.status, "detail": o.detail[:200],
                               **({"witness": str(o.witness)[:300]} if o.kind == "struct" and o.witness else {})} for o in undecided],
                "violations": [
                    {"obligation": o.name, "replay": p, "input_found": h} for o, p, h in violations
                ],
                "explanation": self.technique + (" | " + " | ".join(self.notes) if self.notes else ""),
                "exit_code": code,
                "exit_reason": reason,
                "repo": REPO,
                **_jsonable(self.extra),
            },
            "assumptions": self.assumptions,
            "wall_s": round(time.time() - self.t0, 2),
            "violations": len(violations),
        }
        os.makedirs(os.path.join(OUT, "evidence"), exist_ok=True)
        with open(os.path.join(OUT, "evidence", f"{self.prop}.json"), "w") as f:
            json.dump(ev, f, indent=1)
        print(
            f"SUMMARY property={self.prop} tier={self.tier} obligations={len(obs)} discharged={n_ok} "
            f"known={len(known_hits)} undecided={len(undecided)} violations={len(violations)} "
            f"wall={ev['wall_s']}s exit={code}"
        )
        return code


def _match_known(known: list[dict[str, Any]], ob: Obligation) -> dict[str, Any] | None:
    """An *open* known finding matches when it names exactly this obligation."""
    for kf in known:
        if kf.get("status") != "open":
            continue
        for pat in kf.get("obligations", []):
            if ob.name == pat or (pat.endswith("*") and ob.name.startswith(pat[:-1])):
                return kf
    return None


def update_ledger(prop: str, names: list[str], tier: str, abstractions: set[str] | None = None) -> None:
    os.makedirs(LEDGER_DIR, exist_ok=True)
    path = os.path.join(LEDGER_DIR, f"{prop}.json")
    old = set()
    if os.path.exists(path) and tier == "thorough":
        old = set(json.load(open(path))["obligations"])
    # the ledger holds the obligations of the quick tier (a subset of thorough); a thorough run only adds names
    if tier == "thorough":
        return
    with open(path, "w") as f:
        json.dump({"property": prop, "obligations": sorted(names), "abstractions": sorted(abstractions or [])}, f, indent=0)
