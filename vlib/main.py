"""Entry point: python -m vlib.main <id> [--tier T] [--replay F] [--update-ledger]."""

from __future__ import annotations

import argparse
import importlib
import json
import os
import sys
import traceback
import warnings


def main() -> int:
    ap = argparse.ArgumentParser()
    ap.add_argument("prop")
    ap.add_argument("--tier", default=os.environ.get("VERIF_TIER") or "quick", choices=["quick", "thorough"])
    ap.add_argument("--replay")
    ap.add_argument("--update-ledger", action="store_true")
    ap.add_argument("--only", help="substring filter on obligation names (debugging; never for registered commands)")
    a = ap.parse_args()
    warnings.filterwarnings("ignore")
    from . import core

    try:
        import ampform  # noqa: F401

        src = os.path.realpath(os.path.dirname(ampform.__file__))
        want = os.path.realpath(os.path.join(core.REPO, "src", "ampform"))
        if src != want:
            print(f"CHECKER-ERROR ampform imported from {src}, expected {want}")
            return 3
        mod = importlib.import_module(f"contracts.{a.prop.lower()}")
    except Exception:  # noqa: BLE001
        traceback.print_exc()
        print(f"CHECKER-ERROR cannot load contracts for {a.prop}")
        return 3
    if a.replay:
        with open(a.replay) as f:
            rec = json.load(f)
        return mod.replay(rec) if hasattr(mod, "replay") else _generic_replay(mod, rec, a)
    chk = core.Check(a.prop, a.tier, mod.LEVEL, mod.TECHNIQUE)
    chk.ignore_ledger = bool(a.update_ledger or a.only)
    if "vlib.pyvc" in sys.modules and not a.only:
        # the check's proofs rest on the E3 symbolic executor: before anything it says is believed, the executor is compared with
        # CPython on the self-test functions (a disagreement is a defect of the MACHINERY: exit 3, nothing is reported about the property)
        from . import selftest

        try:
            r = selftest.run_all(n_random=120 if a.tier == "thorough" else 12)
        except Exception:  # noqa: BLE001
            traceback.print_exc()
            r = {"cases": 0, "inputs": 0, "disagreements": ["self-test crashed"]}
        if r["disagreements"] or not r["inputs"]:
            for d in r["disagreements"][:5]:
                print(f"CHECKER-ERROR engine self-test: {d}")
            print(f"CHECKER-ERROR property={a.prop} the E3 executor disagrees with CPython on its self-test; no verdict")
            return 3
        chk.trust(f"E3 executor vlib/pyvc.py: differential self-test against CPython on this run: {r['cases']} functions, {r['inputs']} inputs, 0 disagreements "
                  "(vlib/selftest.py); outside those shapes its semantics is trusted")
    try:
        mod.build(chk)
        if a.only:
            chk.obligations = [o for o in chk.obligations if a.only in o.name]
        chk.run()
    except core.Undecided as e:
        print(f"UNDECIDED property={a.prop} {e}")
        chk.notes.append(f"undecided: {e}")
        chk.finish()
        return 2
    except Exception:  # noqa: BLE001
        traceback.print_exc()
        print(f"CHECKER-ERROR property={a.prop} exception in the machinery")
        chk.notes.append("exception: " + traceback.format_exc()[-500:])
        try:
            chk._write_and_exit(3, 0, [], [], [], "exception")
        except Exception:  # noqa: BLE001
            pass
        return 3
    code = chk.finish()
    if a.update_ledger:
        if code == 0 and not a.only:
            core.update_ledger(a.prop, [o.name for o in chk.obligations], a.tier,
                               set().union(*[core.abstraction_symbols(getattr(o, "_smt2", None)) for o in chk.obligations]) if chk.obligations else set())
            print(f"ledger updated: {len(chk.obligations)} obligations")
        else:
            print("ledger NOT updated (exit code != 0 or --only given)")
    return code


def _generic_replay(mod, rec, a) -> int:
    """Re-generate the obligations and re-run the one named in the replay file."""
    from . import core

    chk = core.Check(a.prop, a.tier, mod.LEVEL, mod.TECHNIQUE)
    mod.build(chk)
    chk.obligations = [o for o in chk.obligations if o.name == rec["obligation"]]
    if not chk.obligations:
        print(f"replay: obligation {rec['obligation']} is not generated any more")
        return 3
    chk.run()
    ob = chk.obligations[0]
    print(f"replay: obligation={ob.name} status={ob.status} solver={ob.solver}")
    if ob.replay is not None and ob.status == "sat":
        rep = ob.replay(ob.model)
        print("replay on real code:", json.dumps(core._jsonable(rep))[:2000])
        return 1 if rep and rep.get("reproduced") else 2
    ok = ob.status == ("sat" if ob.kind in {"cover", "mustfail"} else "unsat")
    return 0 if ok else 1


if __name__ == "__main__":
    sys.exit(main())
