"""E4 `frames`: ownership (frame) and iteration-order obligations generated from the package AST.

O-cache   for every functools-cached function whose result may be (or contain) a mutable container: no function of the
          package mutates that result or an alias of it (aliases through assignment, `return f(...)[k]` wrappers and
          methods that forward it). Copies (`dict(x)`, `list(x)`, `x.copy()`, `sorted(x)`, comprehensions) break the alias.
O-global  no module-level mutable container is mutated inside a function body.
O-order   every iteration over a value that may be a `set`/`frozenset` of non-int elements goes through `sorted(...)`,
          or is covered by a commutativity lemma listed in the contract file.
The analysis is syntactic and over-approximate (A-static: name-based call resolution, no reflection); a failed obligation
is a *candidate* that the contract file confirms by replay on the real code before it is reported as a violation.
"""

from __future__ import annotations

import ast
import os
from dataclasses import dataclass, field

MUTATORS = {"update", "append", "extend", "pop", "remove", "setdefault", "clear", "add", "insert", "popitem", "discard", "sort", "reverse"}
COPIERS = {"dict", "list", "set", "tuple", "sorted", "frozenset", "OrderedDict", "copy", "deepcopy"}
CACHE_DECOS = {"cache", "lru_cache", "functools.cache", "functools.lru_cache"}


@dataclass
class Func:
    module: str
    qual: str
    node: ast.FunctionDef
    cls: str | None
    path: str
    cached: bool = False
    returns_mutable: bool = False
    forwards: set[str] = field(default_factory=set)  # names of callees whose result it returns (possibly subscripted)

    @property
    def name(self) -> str:
        return self.node.name

    @property
    def full(self) -> str:
        return f"{self.module}.{self.qual}"


def _deco_name(d) -> str:
    if isinstance(d, ast.Call):
        d = d.func
    return ast.unparse(d)


def load_package(src_root: str, package: str = "ampform") -> list[Func]:
    funcs: list[Func] = []
    base = os.path.join(src_root, package)
    for dirpath, _, files in os.walk(base):
        for fn in sorted(files):
            if not fn.endswith(".py"):
                continue
            path = os.path.join(dirpath, fn)
            mod = os.path.relpath(path, src_root)[:-3].replace(os.sep, ".")
            if mod.endswith(".__init__"):
                mod = mod[: -len(".__init__")]
            tree = ast.parse(open(path).read())

            def visit(body, prefix, cls):
                for n in body:
                    if isinstance(n, (ast.FunctionDef, ast.AsyncFunctionDef)):
                        f = Func(mod, prefix + n.name, n, cls, path)
                        f.cached = any(_deco_name(d) in CACHE_DECOS for d in n.decorator_list)
                        funcs.append(f)
                        visit(n.body, prefix + n.name + ".<locals>.", cls)
                    elif isinstance(n, ast.ClassDef):
                        visit(n.body, prefix + n.name + ".", n.name)
                    elif isinstance(n, (ast.If, ast.Try, ast.With)):
                        for sub in ("body", "orelse", "finalbody", "handlers"):
                            for x in getattr(n, sub, []):
                                if isinstance(x, ast.ExceptHandler):
                                    visit(x.body, prefix, cls)
                                else:
                                    visit([x], prefix, cls)

            visit(tree.body, "", None)
    return funcs


def _own_nodes(fn: ast.FunctionDef):
    """Nodes of the function body excluding nested function/class bodies."""
    stack = list(fn.body)
    while stack:
        n = stack.pop()
        yield n
        for c in ast.iter_child_nodes(n):
            if isinstance(c, (ast.FunctionDef, ast.AsyncFunctionDef, ast.ClassDef, ast.Lambda)):
                continue
            stack.append(c)


MUTABLE_ATTRS: set[str] = set()  # attribute names bound somewhere in the package to a mutable container (self.x = {} ...)


def collect_mutable_attrs(funcs) -> set[str]:
    out = set()
    for f in funcs:
        for n in _own_nodes(f.node):
            tgt = val = ann = None
            if isinstance(n, ast.Assign) and len(n.targets) == 1:
                tgt, val = n.targets[0], n.value
            elif isinstance(n, ast.AnnAssign):
                tgt, val, ann = n.target, n.value, ast.unparse(n.annotation)
            if isinstance(tgt, ast.Attribute) and isinstance(tgt.value, ast.Name) and tgt.value.id == "self":
                if (val is not None and _is_mutable_expr(val, set())) or (ann and any(k in ann for k in ("dict[", "list[", "set[", "defaultdict"))):
                    out.add(tgt.attr)
    return out


def _is_mutable_expr(e, local_mut: set[str]) -> bool:
    if isinstance(e, (ast.Dict, ast.List, ast.Set, ast.DictComp, ast.ListComp, ast.SetComp)):
        return True
    if isinstance(e, ast.Call):
        nm = ast.unparse(e.func)
        if nm.split(".")[-1] in {"dict", "list", "set", "defaultdict", "OrderedDict"}:
            return True
        return False
    if isinstance(e, ast.Name):
        return e.id in local_mut
    if isinstance(e, ast.Attribute):
        return e.attr in MUTABLE_ATTRS or (isinstance(e.value, ast.Name) and f"{e.value.id}.{e.attr}" in local_mut)
    if isinstance(e, ast.Tuple):
        return any(_is_mutable_expr(x, local_mut) for x in e.elts)
    return False


def _local_mutables(fn: ast.FunctionDef) -> set[str]:
    out: set[str] = set()
    changed = True
    while changed:
        changed = False
        for n in _own_nodes(fn):
            tgt = val = None
            if isinstance(n, ast.Assign) and len(n.targets) == 1:
                tgt, val = n.targets[0], n.value
            elif isinstance(n, ast.AnnAssign) and n.value is not None:
                tgt, val = n.target, n.value
                ann = ast.unparse(n.annotation)
                if isinstance(tgt, (ast.Name, ast.Attribute)) and any(k in ann for k in ("dict[", "list[", "set[", "Dict[", "List[", "defaultdict")):
                    key = ast.unparse(tgt)
                    if key not in out:
                        out.add(key)
                        changed = True
            if tgt is not None and isinstance(tgt, (ast.Name, ast.Attribute)) and _is_mutable_expr(val, out):
                key = ast.unparse(tgt)
                if key not in out:
                    out.add(key)
                    changed = True
    return out


def _called_name(call: ast.Call) -> str:
    f = call.func
    if isinstance(f, ast.Name):
        return f.id
    if isinstance(f, ast.Attribute):
        return f.attr
    return ""


def _strip_subscripts(e):
    while isinstance(e, ast.Subscript):
        e = e.value
    return e


def analyse_cache(funcs: list[Func]) -> dict:
    """Returns {'cached': [...], 'tainted': {...}, 'violations': [...]}."""
    MUTABLE_ATTRS.clear()
    MUTABLE_ATTRS.update(collect_mutable_attrs(funcs))
    # which cached functions return something mutable
    sources: set[str] = set()
    cached = [f for f in funcs if f.cached]
    for f in cached:
        lm = _local_mutables(f.node)
        for n in _own_nodes(f.node):
            if isinstance(n, ast.Return) and n.value is not None and _is_mutable_expr(n.value, lm):
                f.returns_mutable = True
        if f.returns_mutable:
            sources.add(f.name)
    # functions that forward a tainted result: `return g(...)`, `return g(...)[k]`, or via a local alias
    tainted: dict[str, str] = {s: s for s in sources}  # function name -> originating cached function
    changed = True
    while changed:
        changed = False
        for f in funcs:
            if f.name in tainted:
                continue
            aliases = _aliases_of_tainted(f.node, tainted)
            for n in _own_nodes(f.node):
                if isinstance(n, ast.Return) and n.value is not None:
                    root = _strip_subscripts(n.value)
                    src = None
                    if isinstance(root, ast.Call) and _called_name(root) in tainted:
                        src = tainted[_called_name(root)]
                    elif isinstance(root, ast.Name) and root.id in aliases:
                        src = aliases[root.id]
                    if src:
                        tainted[f.name] = src
                        changed = True
                        break
    # mutation sites on aliases of tainted results
    violations = []
    for f in funcs:
        aliases = _aliases_of_tainted(f.node, tainted)
        if not aliases:
            continue
        for n in _own_nodes(f.node):
            site = None
            if isinstance(n, (ast.Assign, ast.AugAssign, ast.AnnAssign)):
                for t in n.targets if isinstance(n, ast.Assign) else [n.target]:
                    if isinstance(t, ast.Subscript):
                        root = _strip_subscripts(t)
                        if isinstance(root, ast.Name) and root.id in aliases:
                            site = (root.id, "subscript store")
                    if isinstance(n, ast.AugAssign) and isinstance(t, ast.Name) and t.id in aliases:
                        site = (t.id, "augmented assignment")
            elif isinstance(n, ast.Delete):
                for t in n.targets:
                    root = _strip_subscripts(t)
                    if isinstance(t, ast.Subscript) and isinstance(root, ast.Name) and root.id in aliases:
                        site = (root.id, "del")
            elif isinstance(n, ast.Call) and isinstance(n.func, ast.Attribute) and n.func.attr in MUTATORS:
                root = _strip_subscripts(n.func.value)
                if isinstance(root, ast.Name) and root.id in aliases:
                    site = (root.id, f".{n.func.attr}()")
            if site:
                violations.append({
                    "cached_function": aliases[site[0]], "in_function": f.full, "file": os.path.relpath(f.path), "line": n.lineno,
                    "alias": site[0], "mutation": site[1], "code": ast.unparse(n)[:120],
                })
    return {"cached": [f.full for f in cached], "returns_mutable": sorted(f.full for f in cached if f.returns_mutable),
            "tainted": tainted, "violations": violations}


def _aliases_of_tainted(fn: ast.FunctionDef, tainted: dict[str, str]) -> dict[str, str]:
    """local name -> originating cached function, for names bound (without a copy) to a tainted call result."""
    aliases: dict[str, str] = {}
    changed = True
    while changed:
        changed = False
        for n in _own_nodes(fn):
            if isinstance(n, ast.Assign) and len(n.targets) == 1:
                tgts, val = [n.targets[0]], n.value
            elif isinstance(n, ast.AnnAssign) and n.value is not None:
                tgts, val = [n.target], n.value
            else:
                continue
            # tuple unpacking of a tainted tuple: every element may alias
            names = []
            for t in tgts:
                if isinstance(t, ast.Name):
                    names.append(t.id)
                elif isinstance(t, ast.Tuple):
                    names += [e.id for e in t.elts if isinstance(e, ast.Name)]
            root = _strip_subscripts(val)
            src = None
            if isinstance(root, ast.Call):
                cn = _called_name(root)
                if cn in COPIERS:
                    src = None
                elif cn in tainted:
                    src = tainted[cn]
            elif isinstance(root, ast.Name) and root.id in aliases:
                src = aliases[root.id]
            if src:
                for nm in names:
                    if aliases.get(nm) != src:
                        aliases[nm] = src
                        changed = True
    return aliases


def analyse_globals(funcs: list[Func], src_root: str, package: str = "ampform") -> list[dict]:
    """Module-level names bound to mutable containers that are mutated inside a function of the same module."""
    out = []
    by_path: dict[str, list[Func]] = {}
    for f in funcs:
        by_path.setdefault(f.path, []).append(f)
    for path, fs in by_path.items():
        tree = ast.parse(open(path).read())
        globs = set()
        for n in tree.body:
            if isinstance(n, ast.Assign) and len(n.targets) == 1 and isinstance(n.targets[0], ast.Name) and _is_mutable_expr(n.value, set()):
                globs.add(n.targets[0].id)
            if isinstance(n, ast.AnnAssign) and isinstance(n.target, ast.Name) and n.value is not None and _is_mutable_expr(n.value, set()):
                globs.add(n.target.id)
        if not globs:
            continue
        for f in fs:
            local = {a.arg for a in f.node.args.args + f.node.args.kwonlyargs}
            for n in _own_nodes(f.node):
                if isinstance(n, ast.Assign):
                    for t in n.targets:
                        if isinstance(t, ast.Name):
                            local.add(t.id)
            for n in _own_nodes(f.node):
                hit = None
                if isinstance(n, ast.Assign):
                    for t in n.targets:
                        root = _strip_subscripts(t)
                        if isinstance(t, ast.Subscript) and isinstance(root, ast.Name) and root.id in globs - local:
                            hit = root.id
                elif isinstance(n, ast.Call) and isinstance(n.func, ast.Attribute) and n.func.attr in MUTATORS:
                    root = _strip_subscripts(n.func.value)
                    if isinstance(root, ast.Name) and root.id in globs - local:
                        hit = root.id
                if hit:
                    out.append({"global": hit, "in_function": f.full, "file": os.path.relpath(path), "line": n.lineno, "code": ast.unparse(n)[:120]})
    return out


SETTY_ANN = ("set[", "Set[", "frozenset[", "FrozenSet[", "AbstractSet[")


def analyse_order(funcs: list[Func]) -> list[dict]:
    """Iteration sites over values that are syntactically sets (constructed in the function, annotated, or returned by a
    function annotated to return a set / a mapping to sets) without an enclosing sorted()."""
    set_returning: dict[str, str] = {}
    for f in funcs:
        if f.node.returns is not None:
            ann = ast.unparse(f.node.returns)
            if any(k in ann for k in SETTY_ANN):
                set_returning[f.name] = ann
    # attributes bound to a set anywhere in the package (self.x = <setty>) are setty in every method
    attr_setty: dict[str, str] = {}
    for f in funcs:
        for n in _own_nodes(f.node):
            if isinstance(n, ast.Assign) and len(n.targets) == 1 and isinstance(n.targets[0], ast.Attribute):
                t = n.targets[0]
                if isinstance(t.value, ast.Name) and t.value.id == "self":
                    why = _why_setty(n.value, {}, set_returning)
                    if why:
                        attr_setty[ast.unparse(t)] = why
    sites = []
    for f in funcs:
        setty: dict[str, str] = dict(attr_setty)  # local expr text -> why it may be a set
        for a in f.node.args.args + f.node.args.kwonlyargs:
            if a.annotation is not None and any(k in ast.unparse(a.annotation) for k in SETTY_ANN):
                setty[a.arg] = f"parameter annotated {ast.unparse(a.annotation)}"
        changed = True
        while changed:
            changed = False
            for n in _own_nodes(f.node):
                tgt = val = ann = None
                if isinstance(n, ast.Assign) and len(n.targets) == 1:
                    tgt, val = n.targets[0], n.value
                elif isinstance(n, ast.AnnAssign):
                    tgt, val, ann = n.target, n.value, ast.unparse(n.annotation)
                if tgt is None or not isinstance(tgt, (ast.Name, ast.Attribute)):
                    continue
                key = ast.unparse(tgt)
                why = None
                if ann and any(k in ann for k in SETTY_ANN):
                    why = f"annotated {ann}"
                elif val is not None:
                    why = _why_setty(val, setty, set_returning)
                if why and key not in setty:
                    setty[key] = why
                    changed = True
        for n in _own_nodes(f.node):
            its = []
            if isinstance(n, ast.For):
                its.append(n.iter)
            elif isinstance(n, (ast.ListComp, ast.GeneratorExp, ast.DictComp, ast.SetComp)):
                its += [g.iter for g in n.generators]
            elif isinstance(n, ast.Call):
                nm = _called_name(n)
                if nm in {"tuple", "list", "next", "iter", "enumerate", "zip", "reduce", "map"}:
                    its += list(n.args)
                its += [a.value for a in n.args if isinstance(a, ast.Starred)]
            for it in its:
                why = _why_setty(it, setty, set_returning)
                if why and not _int_only(why):
                    if isinstance(n, ast.SetComp):
                        continue  # result is a set again: order-insensitive
                    if "of a mapping to sets" in why and _set_values_only_sorted(n, it):
                        continue  # the mapping is iterated in insertion order and each set value is used only through sorted()/len()/in
                    sites.append({"in_function": f.full, "file": os.path.relpath(f.path), "line": it.lineno, "iterable": ast.unparse(it)[:80],
                                  "why": why, "construct": type(n).__name__})
    return sites


ORDER_FREE_USES = {"sorted", "len", "min", "max", "sum", "any", "all", "frozenset", "set"}


def _set_values_only_sorted(n, it) -> bool:
    """`for k, v in m.items()` / comprehension over m.items()/m.values(): v (the set) is only used as sorted(v), len(v), x in v."""
    kind = it.func.attr if isinstance(it, ast.Call) and isinstance(it.func, ast.Attribute) else ""
    target = None
    scope: list = []
    if isinstance(n, ast.For) and n.iter is it:
        target, scope = n.target, n.body
    elif isinstance(n, (ast.ListComp, ast.GeneratorExp, ast.DictComp)):
        for g in n.generators:
            if g.iter is it:
                target = g.target
        scope = [n.elt] if not isinstance(n, ast.DictComp) else [n.key, n.value]
        scope += [c for g in n.generators for c in g.ifs]
    if target is None:
        return False
    if kind == "items" and isinstance(target, ast.Tuple) and len(target.elts) == 2 and isinstance(target.elts[1], ast.Name):
        var = target.elts[1].id
    elif kind == "values" and isinstance(target, ast.Name):
        var = target.id
    else:
        return False
    ok = True
    for root in scope:
        parents = {}
        for p in ast.walk(root):
            for c in ast.iter_child_nodes(p):
                parents[id(c)] = p
        for x in ast.walk(root):
            if isinstance(x, ast.Name) and x.id == var:
                par = parents.get(id(x))
                if isinstance(par, ast.Call) and _called_name(par) in ORDER_FREE_USES and x in par.args:
                    continue
                if isinstance(par, ast.Compare) and x in par.comparators and all(isinstance(o, (ast.In, ast.NotIn)) for o in par.ops):
                    continue
                ok = False
    return ok


def _int_only(why: str) -> bool:
    return "set[int]" in why or "Set[int]" in why or "frozenset[int]" in why


def _why_setty(e, setty: dict[str, str], set_returning: dict[str, str]) -> str | None:
    if isinstance(e, (ast.Set, ast.SetComp)):
        return "set display/comprehension"
    txt = ast.unparse(e)
    if txt in setty:
        return setty[txt]
    if isinstance(e, ast.Attribute) and e.attr == "free_symbols":
        return "SymPy .free_symbols (a set of symbols)"
    if isinstance(e, ast.Call):
        nm = _called_name(e)
        if nm in {"set", "frozenset"}:
            return f"{nm}(...) call"
        if nm == "atoms" and isinstance(e.func, ast.Attribute):
            return "SymPy .atoms() (a set)"
        if nm in {"sorted", "natural_sort", "len", "sum", "min", "max", "any", "all", "dict"}:
            return None
        if nm in {"values", "items", "keys"} and isinstance(e.func, ast.Attribute):
            inner = _why_setty(e.func.value, setty, set_returning)
            if inner and ("dict[" in inner or "Dict[" in inner or "Mapping[" in inner) and nm in {"values", "items"}:
                return inner + f" (.{nm}() of a mapping to sets)"
            return None
        if nm in set_returning:
            return f"{nm}() annotated -> {set_returning[nm]}"
    if isinstance(e, ast.BinOp) and isinstance(e.op, (ast.BitOr, ast.BitAnd, ast.Sub, ast.BitXor)):
        return _why_setty(e.left, setty, set_returning) or _why_setty(e.right, setty, set_returning)
    return None


# ---------------------------------------------------------------------------------------------------------------------
# ownership of returned containers: a caller that mutates the result of a call needs the callee to hand out a FRESH object
# ---------------------------------------------------------------------------------------------------------------------
_MUTATORS = {"update", "pop", "popitem", "clear", "setdefault", "append", "extend", "insert", "remove", "add", "discard", "sort", "reverse"}
_FRESH_CALLS = {"dict", "list", "set", "sorted", "tuple", "frozenset", "copy", "deepcopy", "defaultdict", "OrderedDict"}


def mutated_call_results(fn: ast.FunctionDef) -> list[dict]:
    """Locals of fn that are bound to the result of a method/function call and then mutated in place in fn."""
    bound: dict[str, ast.Call] = {}
    for n in _own_nodes(fn):
        if isinstance(n, ast.Assign) and len(n.targets) == 1 and isinstance(n.targets[0], ast.Name) and isinstance(n.value, ast.Call):
            bound[n.targets[0].id] = n.value
    out = []
    for n in _own_nodes(fn):
        name = None
        if isinstance(n, ast.Delete):
            for t in n.targets:
                if isinstance(t, ast.Subscript) and isinstance(t.value, ast.Name):
                    name = t.value.id
        elif isinstance(n, (ast.Assign, ast.AugAssign)):
            for t in (n.targets if isinstance(n, ast.Assign) else [n.target]):
                if isinstance(t, ast.Subscript) and isinstance(t.value, ast.Name):
                    name = t.value.id
        elif isinstance(n, ast.Call) and isinstance(n.func, ast.Attribute) and n.func.attr in _MUTATORS and isinstance(n.func.value, ast.Name):
            name = n.func.value.id
        if name in bound and not any(o["local"] == name for o in out):
            out.append({"local": name, "callee": _called_name(bound[name]), "line": n.lineno, "wrapped_fresh": _called_name(bound[name]) in _FRESH_CALLS})
    return out


def returns_fresh(fn: ast.FunctionDef) -> tuple[bool, str]:
    """Every `return` of fn yields an object created in this call: a display/comprehension, dict()/list()/..., or a local that is only
    ever bound to such values (never to an attribute, a parameter or another call's result)."""
    params = {a.arg for a in [*fn.args.args, *fn.args.kwonlyargs, *fn.args.posonlyargs]}
    assigns: dict[str, list[ast.expr]] = {}
    for n in _own_nodes(fn):
        if isinstance(n, ast.Assign):
            for t in n.targets:
                if isinstance(t, ast.Name):
                    assigns.setdefault(t.id, []).append(n.value)
        elif isinstance(n, ast.AnnAssign) and isinstance(n.target, ast.Name) and n.value is not None:
            assigns.setdefault(n.target.id, []).append(n.value)

    def fresh(e, depth=0) -> str | None:  # None = fresh, else the reason
        if isinstance(e, (ast.Dict, ast.List, ast.Set, ast.DictComp, ast.ListComp, ast.SetComp, ast.Tuple, ast.Constant)):
            return None
        if isinstance(e, ast.Call) and _called_name(e) in _FRESH_CALLS:
            return None
        if isinstance(e, ast.Name):
            if e.id in params:
                return f"returns its parameter {e.id}"
            if e.id not in assigns:
                return f"returns {e.id}, which is not a local of the function"
            if depth > 4:
                return "alias chain too long"
            for v in assigns[e.id]:
                r = fresh(v, depth + 1)
                if r:
                    return f"{e.id} <- {r}"
            return None
        if isinstance(e, ast.Attribute):
            return f"returns the attribute {ast.unparse(e)} (state that outlives the call)"
        if isinstance(e, ast.Call):
            return f"returns the result of {ast.unparse(e.func)}(...) (not known to be fresh)"
        if isinstance(e, ast.IfExp):
            return fresh(e.body, depth) or fresh(e.orelse, depth)
        return f"returns {type(e).__name__}"

    rets = [n for n in _own_nodes(fn) if isinstance(n, ast.Return) and n.value is not None]
    if not rets:
        return False, "no return statement"
    for r in rets:
        why = fresh(r.value)
        if why:
            return False, f"line {r.lineno}: {why}"
    return True, f"{len(rets)} return statement(s), each a container created in the call"


def analyse_ownership(funcs: list[Func], caller_names: tuple[str, ...]) -> list[dict]:
    """For each caller (qualified-name suffix): the locals it mutates that come from calls, and whether every package function
    with the callee's name returns a fresh container."""
    out = []
    for f in funcs:
        if not any(f.full.endswith(c) for c in caller_names):
            continue
        for m in mutated_call_results(f.node):
            if m["wrapped_fresh"]:
                out.append({"caller": f.full, **m, "fresh": True, "why": f"wrapped in {m['callee']}(...) at the call site", "callees": []})
                continue
            cands = [g for g in funcs if g.name == m["callee"] or g.name.endswith("__" + m["callee"].lstrip("_"))]
            verdicts = [(g.full, *returns_fresh(g.node)) for g in cands]
            ok = bool(verdicts) and all(v[1] for v in verdicts)
            out.append({"caller": f.full, **m, "fresh": ok, "why": "; ".join(f"{v[0]}: {v[2]}" for v in verdicts) or "callee not found in the package", "callees": [v[0] for v in verdicts]})
    return out


# ---------------------------------------------------------------------------------------------------------------------
# containers an object keeps in its own attributes and fills in its methods (memo tables that outlive a call)
# ---------------------------------------------------------------------------------------------------------------------
def analyse_instance_containers(funcs: list[Func], class_suffixes: tuple[str, ...], entry: str = "formulate") -> list[dict]:
    """For the classes named: attributes bound in __init__ to a container created there (display, dict()/list()/set()/defaultdict()),
    the methods that mutate them in place (self.a[k] = v, self.a.update(...), ...), and whether `entry` rebinds or clears them before use.
    Such an attribute is state that survives entry() unless it is reset: results of a later call may depend on an earlier one."""
    out = []
    by_cls: dict[str, list[Func]] = {}
    for f in funcs:
        if f.cls and any((f.module + "." + f.cls).endswith(c) for c in class_suffixes):
            by_cls.setdefault(f.module + "." + f.cls, []).append(f)
    for cls, fs in by_cls.items():
        init = next((f for f in fs if f.name == "__init__"), None)
        if init is None:
            continue
        attrs = {}
        for n in _own_nodes(init.node):
            if isinstance(n, (ast.Assign, ast.AnnAssign)):
                targets = n.targets if isinstance(n, ast.Assign) else [n.target]
                v = n.value
                for t in targets:
                    if isinstance(t, ast.Attribute) and isinstance(t.value, ast.Name) and t.value.id == "self" and v is not None:
                        if isinstance(v, (ast.Dict, ast.List, ast.Set, ast.DictComp, ast.ListComp, ast.SetComp)) or (isinstance(v, ast.Call) and _called_name(v) in {"dict", "list", "set", "defaultdict", "OrderedDict"}):
                            attrs[t.attr] = n.lineno
        for a, line in attrs.items():
            mutated, reset = [], False
            for f in fs:
                if f.name == "__init__":
                    continue
                for n in _own_nodes(f.node):
                    tgt = None
                    if isinstance(n, (ast.Assign, ast.AugAssign)):
                        for t in (n.targets if isinstance(n, ast.Assign) else [n.target]):
                            if isinstance(t, ast.Subscript):
                                tgt = t.value
                            elif isinstance(t, ast.Attribute) and isinstance(t.value, ast.Name) and t.value.id == "self" and t.attr == a and f.name == entry:
                                reset = True
                    elif isinstance(n, ast.Delete):
                        for t in n.targets:
                            if isinstance(t, ast.Subscript):
                                tgt = t.value
                    elif isinstance(n, ast.Call) and isinstance(n.func, ast.Attribute) and n.func.attr in _MUTATORS:
                        tgt = n.func.value
                        if n.func.attr == "clear" and f.name == entry and isinstance(tgt, ast.Attribute) and tgt.attr == a:
                            reset = True
                    if isinstance(tgt, ast.Attribute) and isinstance(tgt.value, ast.Name) and tgt.value.id == "self" and tgt.attr == a and f.full not in mutated:
                        mutated.append(f.full)
            if mutated:
                out.append({"class": cls, "attribute": a, "bound_in___init___line": line, "mutated_in": mutated, f"reset_in_{entry}": reset})
    return out
