"""Small Python functions for the differential self-test of the E3 symbolic executor (tools/engine_selftest.py).

Every function takes integers and returns integers / lists / tuples / dicts of integers. The shapes are the ones refactorings of
the package produce and that have tripped the engine before: helpers that fork called inside loops, containers mutated after a
fork, containers held inside tuples / NamedTuples, values held by the caller while a later argument forks, generators, walrus,
early returns, try/except, properties.
"""
# ruff: noqa
from __future__ import annotations

from typing import NamedTuple


def sign(x):
    if x > 0:
        return 1
    if x < 0:
        return -1
    return 0


def clamp(x, lo, hi):
    if x < lo:
        return lo
    if x > hi:
        return hi
    return x


def t_helper_in_loop(a, b, c):
    out = []
    for v in (a, b, c):
        out.append(sign(v))
    return out


def t_append_forked_argument(a, b):
    out = [0]
    out.append(sign(a))
    out.append(sign(b) + sign(a))
    return out


def t_dict_store_forked_key_value(a, b):
    d = {}
    d["x"] = sign(a)
    d["y"] = clamp(b, 0, 5)
    if a > b:
        d["x"] += 10
    return d


class Plan(NamedTuple):
    subs: dict
    rest: list


def t_namedtuple_holds_containers(a, b, c):
    plan = Plan(subs={}, rest=[])
    for k, v in (("a", a), ("b", b), ("c", c)):
        if v == 0:
            continue
        if v == 1:
            plan.subs[k] = v
        else:
            plan.rest.append(v)
    return (plan.subs, plan.rest)


def t_tuple_holds_list(a, b):
    pair = ([], [])
    if a > 0:
        pair[0].append(a)
    else:
        pair[1].append(a)
    if b > 0:
        pair[0].append(b)
    else:
        pair[1].append(b)
    return pair


def _push(acc, v):
    if v > 3:
        acc.append(3)
    else:
        acc.append(v)
    return len(acc)


def t_held_list_while_argument_forks(a, b):
    acc = []
    n = _push(acc, a) + _push(acc, b)
    return (n, acc)


def t_list_literal_with_held_and_forked(a, b):
    first = [a]
    both = [first, [sign(b)]]
    both[0].append(sign(a))
    return both


def t_early_return(a, b):
    if a == b:
        return 0
    total = 0
    for v in (a, b):
        if v < 0:
            return -1
        total += v
    return total


def t_try_except(a, b):
    d = {1: 10, 2: 20}
    try:
        if a > 0:
            raise ValueError("positive")
        r = b
    except ValueError:
        r = -b
    return r + d[1]


def _gen(a, b):
    for v in (a, b):
        if v > 0:
            yield v
        yield 0


def t_generator(a, b):
    return list(_gen(a, b))


def t_walrus(a, b):
    if (s := a + b) > 10:
        return s
    return -s


def t_comprehension_with_condition(a, b, c):
    return [v * 2 for v in (a, b, c) if v > 0]


def t_nested_helpers(a, b):
    lo = clamp(a, -2, 2)
    hi = clamp(b, lo, lo + 3)
    return (lo, hi, sign(hi - lo))


def t_aug_assign_in_branches(a, b):
    total = {"n": 0, "s": 0}
    for v in (a, b, a):
        if v > 1:
            total["n"] += 1
            total["s"] += v
        elif v < -1:
            total["s"] -= v
    return total


def t_while_concrete(a):
    i, out = 0, []
    while i < 3:
        out.append(sign(a - i))
        i += 1
    return out


def t_loop_items_mutated(a, b):
    rows = [[0], [0]]
    for row, v in zip(rows, (a, b)):
        if v > 0:
            row.append(v)
        row[0] = sign(v)
    return rows


def t_set_of_results(a, b):
    seen = []
    for v in (a, b):
        s = sign(v)
        if s not in seen:
            seen.append(s)
    return seen


def t_kw_and_defaults(a, b):
    def inner(x, *, scale=2, shift=0):
        if x > 0:
            return x * scale + shift
        return shift

    return inner(a) + inner(b, scale=3, shift=1)


def t_ifexp_and_boolops(a, b):
    x = a if a > b else b
    y = (a > 0 and b > 0) or (a < 0 and b < 0)
    z = not (a == 0 or b == 0)
    return (x, 1 if y else 0, 1 if z else 0)


def t_chained_comparison(a, b):
    if 0 < a <= b < 10:
        return 1
    if a == b != 3:
        return 2
    return 3


def t_membership(a, b):
    pool = (1, 2, 3)
    out = []
    if a in pool:
        out.append(a)
    if b not in pool:
        out.append(-b)
    if a in [b, b + 1]:
        out.append(100)
    return out


def t_dict_iteration(a, b):
    d = {"p": a, "q": b, "r": a + b}
    out = []
    for k, v in d.items():
        if v > 2:
            out.append((k, v))
    for k in d:
        if d[k] < 0:
            d[k] = 0
    return (out, d, sorted(d), list(d.values()))


def t_enumerate_zip(a, b, c):
    out = {}
    for i, (x, y) in enumerate(zip((a, b, c), (c, b, a))):
        if x > y:
            out[i] = x - y
        elif x == y:
            out[i] = 0
    return out


def t_slices_and_starred(a, b, c):
    items = [a, b, c, a + b]
    head, *rest = items
    if head > 0:
        rest = rest[1:]
    return (head, rest, items[-1], items[:2])


def _varargs(*xs, **kw):
    total = 0
    for x in xs:
        if x > 0:
            total += x
    return total + kw.get("bonus", 0)


def t_star_args(a, b):
    pair = (a, b)
    return _varargs(*pair) + _varargs(a, bonus=sign(b)) + _varargs(**{"bonus": 5})


def t_dict_comprehension(a, b, c):
    return {k: (v if v > 0 else -v) for k, v in (("x", a), ("y", b), ("z", c)) if v != 1}


def t_setdefault_get(a, b):
    d = {}
    d.setdefault("k", []).append(sign(a))
    d.setdefault("k", []).append(sign(b))
    return (d, d.get("missing", 7), d.get("k"))


def t_lambda_and_closure(a, b):
    scale = 2 if a > 0 else 3
    f = lambda x: x * scale  # noqa: E731
    def g(x):
        if x > b:
            return f(x)
        return f(b)
    return (g(a), g(b + 1))


def t_nested_loops_break_continue(a, b):
    out = []
    for i in (1, 2, 3):
        if i == a:
            continue
        for j in (1, 2):
            if j == b:
                break
            out.append(i * 10 + j)
        else:
            out.append(-i)
    return out


def t_tuple_unpack_swap(a, b):
    x, y = a, b
    if x > y:
        x, y = y, x
    (p, q), r = (x, y), y - x
    return (p, q, r)


def t_exception_from_helper(a, b):
    def check(v):
        if v < 0:
            raise ValueError("negative")
        return v
    try:
        return check(a) + check(b)
    except ValueError:
        return -1
    finally:
        pass


def t_uncaught_exception(a):
    if a > 5:
        raise KeyError(a)
    return a


def t_list_of_lists_aliasing(a, b):
    row = [0]
    grid = [row, row]
    if a > 0:
        grid[0].append(a)
    other = [list(row), row]
    if b > 0:
        other[0].append(b)
    return (grid, other)


def t_arith(a, b):
    q = a // 2 if a >= 0 else -((-a) // 2)
    return (a + b * 2 - 3, a * b, q, abs(a - b), min(a, b), max(a, b, 0))


def t_sum_len_any_all(a, b, c):
    xs = [a, b, c]
    pos = [x for x in xs if x > 0]
    return (sum(pos), len(pos), 1 if any(x > 5 for x in xs) else 0, 1 if all(x > -2 for x in xs) else 0)


def t_accumulate_records(a, b):
    rows = []
    for name, v in (("a", a), ("b", b)):
        row = {"name": name, "v": v, "tags": []}
        if v > 0:
            row["tags"].append("pos")
        if v % 2 == 0:
            row["tags"].append("even")
        rows.append(row)
    return rows


def t_string_keys_built_from_constants(a, b):
    out = {}
    for i in (1, 2):
        key = f"k{i}"
        out[key] = sign(a) if i == 1 else sign(b)
    return out


def t_mutation_through_helper_return(a, b):
    def pick(d):
        if a > b:
            return d["hi"]
        return d["lo"]
    d = {"hi": [], "lo": []}
    pick(d).append(a)
    pick(d).append(b)
    return d


class Box:
    """Stands for an attrs-like class of the package: fields, a property, a mutating method, a method that forks."""

    def __init__(self, x, y):
        self.x = x
        self.y = y
        self.log = []

    @property
    def total(self):
        return self.x + self.y

    @property
    def bigger(self):
        if self.x > self.y:
            return self.x
        return self.y

    def bump(self, n):
        if n > 0:
            self.x += n
        else:
            self.y -= n
        self.log.append(n)
        return self

    def reset(self):
        for name in ("x", "y"):
            setattr(self, name, 0)
        self.log = []


def t_record_property_and_method(box, a):
    before = box.total
    box.bump(a).bump(-a)
    return (before, box.total, box.bigger, box.x, box.y, box.log)


t_record_property_and_method.records = {"box": ("x", "y")}


def t_record_mutated_in_loop(box, a, b):
    seen = []
    for v in (a, b):
        if v > box.bigger:
            box.bump(v)
        seen.append(box.total)
    if getattr(box, "x") > 5:
        box.reset()
    return (seen, box.x, box.y, box.log)


t_record_mutated_in_loop.records = {"box": ("x", "y")}


def t_two_records_alias(p, q, a):
    boxes = [p, q, p]
    for bx in boxes:
        bx.bump(sign(a))
    return (p.x, p.y, q.x, q.y, p.log, q.log, type(p).__name__)


t_two_records_alias.records = {"p": ("x", "y"), "q": ("x", "y")}


def t_inplace_container_methods(a, b):
    xs = [0]
    xs.extend([sign(a), b])
    xs.insert(0, a)
    seen = set()
    seen.add(1)
    seen.update([2, 3], (4,))
    if a > 0:
        seen.add(5)
        xs.extend((7, 8))
    return (xs, sorted(seen))


def t_operator_helpers(box, a):
    import operator

    get_x = operator.attrgetter("x")
    both = operator.attrgetter("x", "total")
    second = operator.itemgetter(1)
    bump = operator.methodcaller("bump", a)
    before = get_x(box)
    bump(box)
    return (before, both(box), second([a, box.y, 3]))


t_operator_helpers.records = {"box": ("x", "y")}


LIMITS = (0, 3, 7)
_SCALE = {"lo": 1, "hi": 10}


def t_module_constants_and_range(a, b):
    out = []
    for i in range(len(LIMITS)):
        if a > LIMITS[i]:
            out.append(i * _SCALE["hi"])
        else:
            out.append(_SCALE["lo"])
    for i, lim in enumerate(reversed(LIMITS), start=1):
        if b == lim:
            out.append(-i)
    return out


def t_nonlocal_counter(a, b):
    count = 0

    def note(v):
        nonlocal count
        if v > 0:
            count += 1
        return count

    first = note(a)
    second = note(b)
    return (first, second, count)


def t_try_finally_return(a):
    log = []
    def inner():
        try:
            if a > 2:
                return 1
            log.append("body")
            return 2
        finally:
            log.append("finally")
    r = inner()
    return (r, log)


def t_while_break(a):
    i = 0
    steps = []
    while True:
        if i >= 3:
            break
        if a == i:
            steps.append(100)
            i += 2
            continue
        steps.append(i)
        i += 1
    return steps


def t_assert_and_del(a, b):
    d = {"a": a, "b": b, "c": 0}
    del d["c"]
    assert "c" not in d
    if a > b:
        del d["a"]
    return d


def t_strings_concrete(a):
    parts = ["x", "y", "z"]
    name = "_".join(parts[:2]) + ("+" if a > 0 else "-")
    return (name, name.split("_"), name.upper(), len(name), name.startswith("x"))


def t_sorted_with_key_lambda(a, b):
    rows = {"b2": a, "a10": b, "a9": a + b}
    order = sorted(rows, key=lambda k: (len(k), k))
    rev = sorted(rows.items(), key=lambda kv: kv[0], reverse=True)
    return (order, [k for k, _ in rev], [rows[k] for k in order])


def t_zip_star_and_reversed(a, b, c):
    pairs = [(a, 1), (b, 2), (c, 3)]
    vals, idx = zip(*pairs)
    out = []
    for v, i in zip(reversed(vals), idx):
        if v > i:
            out.append((v, i))
    return (list(vals), out)


def t_attribute_aug_assign(box, a):
    box.x += a
    box.y *= 2
    if box.x > box.y:
        box.x, box.y = box.y, box.x
    box.log += [a]
    return (box.x, box.y, box.log)


t_attribute_aug_assign.records = {"box": ("x", "y")}


def t_any_all_generators_fork(a, b, c):
    xs = (a, b, c)
    first_pos = next((x for x in xs if x > 0), None)
    n_big = sum(1 for x in xs if x > 5)
    return (first_pos, n_big, any(x == 0 for x in xs), all(x != 1 for x in xs))


def t_nested_data_update(a, b):
    cfg = {"outer": {"inner": [a]}, "flat": b}
    cfg["outer"]["inner"].append(sign(b))
    copy = {k: v for k, v in cfg.items()}
    copy["flat"] = 0
    if a > 0:
        cfg["outer"]["extra"] = copy["outer"]["inner"][0]
    return (cfg, copy["flat"])


def t_early_continue_accumulate(a, b, c):
    acc = {"sum": 0, "skipped": []}
    for name, v in (("a", a), ("b", b), ("c", c)):
        if v < 0:
            acc["skipped"].append(name)
            continue
        if v > 8:
            break
        acc["sum"] += v
    else:
        acc["done"] = True
    return acc


def t_closure_sees_later_rebinding(a, b):
    scale = 1
    g = lambda x: x * scale  # noqa: E731
    if a > 0:
        scale = 2
    first = g(3)
    if b > 0:
        scale = scale + 5
    return (first, g(1))


def t_iterators(a, b):
    it = iter([a, b, 7])
    first = next(it)
    rest = [x for x in it if x > first]
    empty = next(iter([]), -1)
    return (first, rest, empty)


def t_dict_with_coinciding_keys(a, b, c):
    import math

    d = {k: v for k, v in ((a, 1), (b, 2), (c, 3))}
    lit = {a: "x", b: "y", 0: "z"}
    uniq = {v for v in (a, b, c)}
    prod = math.prod(v for v in d.values())
    return (list(d.items()), list(lit.items()), len(uniq), prod)


def t_dict_store_coinciding_keys(a, b):
    d = {}
    d[a] = "first"
    d[b] = "second"
    d[1] = "one"
    if a in d and b in d:
        d[a] = d[b] + "!"
    return (list(d.items()), d.get(0, "none"), len(d))


def t_grouping_by_symbolic_key(a, b, c):
    import collections

    groups = collections.defaultdict(list) if False else {}
    for name, key in (("x", a), ("y", b), ("z", c)):
        groups.setdefault(key, []).append(name)
    counts = {k: len(v) for k, v in groups.items()}
    return (list(groups.items()), counts.get(a), len(counts))


def t_memo_keyed_too_coarsely(a, b):
    memo = {}

    def lineshape(edge, mass):
        if edge not in memo:
            memo[edge] = mass * 10
        return memo[edge]

    return (lineshape(a, 1), lineshape(b, 2), lineshape(a, 3), len(memo))


def t_closure_counter_in_loop(a, b, c):
    seen = []

    def visit(v):
        if v > 0 and v not in seen:
            seen.append(v)
            return True
        return False

    flags = [visit(v) for v in (a, b, c, a)]
    return (flags, seen)


CASES = [v for k, v in list(globals().items()) if k.startswith("t_") and callable(v)]
