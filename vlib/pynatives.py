"""Assumed contracts on CPython builtins / stdlib used by the E3 targets ("natives").

A native is `handler(ex, st, args, kwargs)` yielding (state, value | Exc). Preconditions of the dependency become
obligations at the call site (`ex.oblige`); postconditions are assumed (`ex.assume`). Each contract file lists the
natives it installs in its evidence (`chk.assume`).
"""

from __future__ import annotations

from fractions import Fraction

import z3

from .pyvc import Exc, Executor, Obj, SList, SV, State, Unsupported, is_sym, to_z3

ZS = {"int": z3.IntSort(), "real": z3.RealSort(), "obj": Obj, "bool": z3.BoolSort()}


# ---- sequence helpers usable from invariants / postconditions ----------------------------------
def seq_len(v):
    return v.length if isinstance(v, SList) else z3.IntVal(len(v))


def seq_forall(v, pred, name="i"):
    """forall i in [0, len): pred(i_term, elem_term)."""
    if isinstance(v, SList):
        i = z3.Int(f"{name}!q")
        return z3.ForAll([i], z3.Implies(z3.And(i >= 0, i < v.length), pred(i, z3.Select(v.elem, i))))
    cs = [pred(z3.IntVal(k), to_z3(x, None) if not isinstance(x, SV) else x.t) for k, x in enumerate(v)]
    return z3.And(*cs) if cs else z3.BoolVal(True)


# ---- numeric conversions (A-arith: float / Decimal are mathematical reals) ------------------------
def n_float(ex: Executor, st: State, args, kwargs):
    (v,) = args
    if isinstance(v, SV):
        if v.sort == "int":
            yield st, SV(z3.ToReal(v.t), "real")
        elif v.sort == "real":
            yield st, v
        else:
            raise Unsupported("float() of a non-number")
    elif isinstance(v, str):
        yield st, Fraction(v)
    else:
        yield st, Fraction(str(v)) if isinstance(v, float) else Fraction(v)


def n_decimal(ex, st, args, kwargs):
    yield from n_float(ex, st, args, kwargs)


def n_int(ex, st, args, kwargs):
    (v,) = args
    if isinstance(v, SV) and v.sort == "int":
        yield st, v
    elif isinstance(v, SV) and v.sort == "real":
        yield st, SV(z3.ToInt(v.t), "int")  # truncation == floor only for v >= 0: callers state that
    elif isinstance(v, SV):
        raise Unsupported("int() of an object")
    else:
        yield st, int(v)


# ---- list contracts ------------------------------------------------------------------------------------
def l_append(ex, st, args, kwargs):
    lst, v = args
    if isinstance(lst, SList):
        lst.elem = z3.Store(lst.elem, lst.length, to_z3(v, lst.elem_sort))
        lst.length = lst.length + 1
        yield st, None
    else:
        lst.append(v)
        yield st, None


def l_remove(ex, st, args, kwargs):
    """list.remove(x): raises ValueError unless x is present; removes the first occurrence."""
    lst, v = args
    where = ex.func_stack[-1] if ex.func_stack else ""
    if not isinstance(lst, SList):
        if any(is_sym(x) for x in lst) or is_sym(v):
            raise Unsupported("remove on a concrete list with symbolic elements")
        if v in lst:
            lst.remove(v)
            yield st, None
        else:
            yield st, Exc("ValueError", ("list.remove(x): x not in list",))
        return
    vt = to_z3(v, lst.elem_sort)
    j = z3.Int(f"j!rm{ex.fresh_n}")
    present = z3.Exists([j], z3.And(j >= 0, j < lst.length, z3.Select(lst.elem, j) == vt))
    ex.oblige(st, f"{where}.list.remove.element_present", present, note="list.remove raises ValueError unless the element is present")
    ex.assume(st, present)
    ex.fresh_n += 1
    j0 = z3.Int(f"first!{ex.fresh_n}")
    k = z3.Int("k!q")
    ex.assume(st, z3.And(j0 >= 0, j0 < lst.length, z3.Select(lst.elem, j0) == vt))
    ex.assume(st, z3.ForAll([k], z3.Implies(z3.And(k >= 0, k < j0), z3.Select(lst.elem, k) != vt)))
    new = z3.Array(f"removed!{ex.fresh_n}", z3.IntSort(), ZS[lst.elem_sort])
    ex.assume(st, z3.ForAll([k], z3.Select(new, k) == z3.If(k < j0, z3.Select(lst.elem, k), z3.Select(lst.elem, k + 1))))
    lst.elem = new
    lst.length = lst.length - 1
    yield st, None


def install_basic(ex: Executor) -> list[str]:
    ex.natives.update({
        "float": n_float,
        "Decimal": n_decimal,
        "int": n_int,
        "list.append": l_append,
        "list.remove": l_remove,
        "pylist.append": l_append,
        "pylist.remove": l_remove,
    })
    return [
        "float()/Decimal() are the identity on mathematical reals (A-arith); Decimal('0.0') = 0",
        "list.append(x) extends the list by x at index len",
        "list.remove(x) raises ValueError unless x occurs; otherwise deletes the first occurrence and shifts the tail",
    ]


def instances(hyps, terms):
    """Proof hints: explicit instances of universally quantified hypotheses (forall x. B  |-  B[t/x]) for the
    given Int terms. Sound (instances of hypotheses); helps where E-matching has no trigger term."""
    out = []
    for h in hyps:
        q = h
        neg = False
        if z3.is_not(h) and z3.is_quantifier(h.arg(0)) and h.arg(0).is_exists():
            q, neg = h.arg(0), True
        elif z3.is_quantifier(h) and h.is_forall():
            q = h
        else:
            continue
        if q.num_vars() != 1 or q.var_sort(0) != z3.IntSort():
            continue
        for t in terms:
            body = z3.substitute_vars(q.body(), t)
            out.append(z3.Not(body) if neg else body)
    return out
