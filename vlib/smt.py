r"""Solver layer: discharge SMT obligations in killable worker processes.

An obligation is a z3 formula `claim` together with a list of hypotheses; it is *discharged*
when  hyps /\ not claim  is unsat.  The query is serialised to SMT-LIB 2 text in the parent,
handed to a forked worker that parses it in a fresh z3 context (so a runaway nlsat call can be
killed at the deadline: z3's own timeout is not reliable for nonlinear real arithmetic), and,
on `unknown`/timeout, retried with other tactics and with cvc5.

Verdicts:  "unsat" (discharged), "sat" (refuted, with a model), "unknown", "timeout", "error".
"""

from __future__ import annotations

import json
import os
import subprocess
import sys
import tempfile
import time
from dataclasses import dataclass, field
from fractions import Fraction
from typing import Any

import z3

_ROOT = os.path.dirname(os.path.dirname(os.path.abspath(__file__)))


@dataclass
class Verdict:
    status: str  # unsat | sat | unknown | timeout | error
    solver: str = ""
    seconds: float = 0.0
    model: dict[str, Any] = field(default_factory=dict)  # name -> Fraction | float | bool
    detail: str = ""


def _decode(v: Any) -> Any:
    if isinstance(v, dict):
        if "q" in v:
            return Fraction(int(v["q"][0]), int(v["q"][1]))
        if "f" in v:
            return float(v["f"])
        return v.get("s")
    return v


def to_smt2(hyps: list[z3.BoolRef], claim: z3.BoolRef | None) -> str:
    s = z3.Solver()
    for h in hyps:
        s.add(h)
    if claim is not None:
        s.add(z3.Not(claim))
    return s.to_smt2()


def _run_z3(smt2_path: str, tactic: str, timeout: float) -> Verdict:
    t0 = time.time()
    try:
        out = subprocess.run(
            [sys.executable, "-m", "vlib.smtworker", smt2_path, tactic],
            capture_output=True,
            text=True,
            timeout=timeout,
            check=False,
            cwd=_ROOT,
        )
    except subprocess.TimeoutExpired:
        return Verdict("timeout", f"z3-5.1:{tactic}", time.time() - t0)
    line = out.stdout.strip().splitlines()[-1] if out.stdout.strip() else ""
    try:
        d = json.loads(line)
    except Exception:  # noqa: BLE001
        return Verdict("error", f"z3-5.1:{tactic}", time.time() - t0, detail=(out.stderr or out.stdout)[-300:])
    model = {k: _decode(v) for k, v in d["model"].items()}
    return Verdict(d["status"], f"z3-5.1:{tactic}", d["seconds"], model, d.get("detail", ""))


def _run_cvc5(path: str, timeout: float, mode: str = "cov") -> Verdict:
    t0 = time.time()
    tag = f"cvc5-1.4:{mode}"
    try:
        out = subprocess.run(
            [sys.executable, "-m", "vlib.cvc5worker", path, mode],
            capture_output=True, text=True, timeout=timeout, check=False, cwd=_ROOT,
        )
    except subprocess.TimeoutExpired:
        return Verdict("timeout", tag, time.time() - t0)
    line = out.stdout.strip().splitlines()[-1] if out.stdout.strip() else ""
    try:
        d = json.loads(line)
    except Exception:  # noqa: BLE001
        return Verdict("error", tag, time.time() - t0, detail=(out.stderr or out.stdout)[-300:])
    model = {k: _decode(v) for k, v in d["model"].items()}
    return Verdict(d["status"], tag, d["seconds"], model, d.get("detail", ""))


def solve(
    smt2: str,
    timeout: float = 60.0,
    tactics: tuple[str, ...] = ("default", "nlsat"),
    use_cvc5: bool = True,
) -> Verdict:
    """Try z3 tactics in turn (splitting the budget), then cvc5. First definite answer wins."""
    attempts: list[Verdict] = []
    text = smt2 if "(set-logic" in smt2 else "(set-logic ALL)\n" + smt2
    with tempfile.NamedTemporaryFile("w", suffix=".smt2", delete=False, dir=_scratch()) as f:
        f.write(text)
        path = f.name
    try:
        return _solve_file(path, timeout, tactics, use_cvc5)
    finally:
        os.unlink(path)


def _validate_model(path: str, model: dict[str, Any], timeout: float) -> bool:
    """Fix every variable of the query to the model's (rational/bool) value and ask z3 for sat."""
    try:
        text = open(path).read()
        extra = []
        for k, v in model.items():
            nm = k if all(c.isalnum() or c in "_.$" for c in k) else f"|{k}|"
            if isinstance(v, bool):
                extra.append(f"(assert (= {nm} {'true' if v else 'false'}))")
            elif isinstance(v, Fraction):
                num = f"(- {abs(v.numerator)})" if v.numerator < 0 else str(v.numerator)
                extra.append(f"(assert (= {nm} (/ {num}.0 {v.denominator}.0)))")
            elif isinstance(v, int):
                extra.append(f"(assert (= {nm} {v if v >= 0 else f'(- {abs(v)})'}))")
            else:
                return False
        idx = text.rfind("(check-sat)")
        if idx < 0:
            return False
        with tempfile.NamedTemporaryFile("w", suffix=".smt2", delete=False, dir=_scratch()) as f:
            f.write(text[:idx] + "\n".join(extra) + "\n(check-sat)\n")
            p2 = f.name
        try:
            r = _run_z3(p2, "default", timeout)
        finally:
            os.unlink(p2)
        return r.status == "sat"
    except Exception:  # noqa: BLE001
        return False


def _scratch() -> str:
    d = os.environ.get("VERIF_SCRATCH") or tempfile.gettempdir()
    os.makedirs(d, exist_ok=True)
    return d


def _solve_file(path: str, timeout: float, tactics: tuple[str, ...], use_cvc5: bool) -> Verdict:
    attempts: list[Verdict] = []
    n = len(tactics) + (1 if use_cvc5 else 0)
    # first tactic gets a short slice so that easy queries return fast; the rest share the remainder
    budget = [min(timeout, max(5.0, timeout / n))] * n
    for tac, b in zip(tactics, budget):
        v = _run_z3(path, tac, b)
        attempts.append(v)
        if v.status in {"unsat", "sat"}:
            v.detail = "; ".join(f"{a.solver}={a.status}" for a in attempts)
            return v
    if use_cvc5:
        v = _run_cvc5(path, budget[-1])
        attempts.append(v)
        if v.status == "unsat":
            v.detail = "; ".join(f"{a.solver}={a.status}" for a in attempts)
            return v
        if v.status == "sat":
            # a cvc5 "sat" on nonlinear arithmetic is believed only if z3 confirms the model (rational values fixed)
            if v.model and _validate_model(path, v.model, min(10.0, budget[-1])):
                v.detail = "; ".join(f"{a.solver}={a.status}" for a in attempts) + " (model validated by z3)"
                return v
            v.status = "unknown"
            v.detail = "cvc5 sat not confirmed by z3"
    worst = "timeout" if any(a.status == "timeout" for a in attempts) else "unknown"
    if all(a.status == "error" for a in attempts):
        worst = "error"
    return Verdict(
        worst,
        "+".join(a.solver for a in attempts),
        sum(a.seconds for a in attempts),
        detail="; ".join(f"{a.solver}={a.status} {a.detail}" for a in attempts)[:500],
    )
